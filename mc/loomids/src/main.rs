//! C19, clause "connection identifiers are distinct", under threads.
//!
//! `loom::model` runs the closure once for every interleaving of the atomic operations the threads
//! perform on zlink-core's id counter (a loom atomic in this build flavor, see the hook in
//! zlink-core/src/connection/mod.rs).  Each execution creates connections on two or three threads and
//! requires their identifiers to be pairwise distinct.  Prints one JSON line for the C19 report.

#[cfg(not(zlink_verif_loom))]
compile_error!("loomids must be built with --cfg zlink_verif_loom");

use std::sync::atomic::{AtomicUsize, Ordering};
use zlink_core::connection::socket::{ReadHalf, Socket, WriteHalf};
use zlink_core::Connection;

#[derive(Debug)]
struct Null;
impl Socket for Null {
    type ReadHalf = Null;
    type WriteHalf = Null;
    fn split(self) -> (Null, Null) {
        (Null, Null)
    }
}
impl ReadHalf for Null {
    async fn read(&mut self, _buf: &mut [u8]) -> zlink_core::Result<usize> {
        Ok(0)
    }
}
impl WriteHalf for Null {
    async fn write(&mut self, _buf: &[u8]) -> zlink_core::Result<()> {
        Ok(())
    }
}

static EXECUTIONS: AtomicUsize = AtomicUsize::new(0);

/// `threads` threads create `per_thread` connections each, the main thread one more.
fn scenario(threads: usize, per_thread: usize) -> Result<usize, String> {
    let before = EXECUTIONS.load(Ordering::SeqCst);
    let r = std::panic::catch_unwind(move || {
        loom::model(move || {
            EXECUTIONS.fetch_add(1, Ordering::SeqCst);
            let handles: Vec<_> = (0..threads)
                .map(|_| loom::thread::spawn(move || (0..per_thread).map(|_| Connection::new(Null).id()).collect::<Vec<usize>>()))
                .collect();
            let mut ids = vec![Connection::new(Null).id()];
            for h in handles {
                ids.extend(h.join().unwrap());
            }
            let mut sorted = ids.clone();
            sorted.sort();
            sorted.dedup();
            assert!(sorted.len() == ids.len(), "connection identifiers are not distinct: {ids:?}");
        });
    });
    let n = EXECUTIONS.load(Ordering::SeqCst) - before;
    match r {
        Ok(()) => Ok(n),
        Err(e) => Err(e.downcast_ref::<String>().cloned().or_else(|| e.downcast_ref::<&str>().map(|s| s.to_string())).unwrap_or_else(|| "loom reported a failing interleaving".into())),
    }
}

fn main() {
    // loom prints the failing schedule to stderr; the verdict goes to stdout as JSON
    let mut phases = Vec::new();
    let mut violation: Option<String> = None;
    for (threads, per_thread) in [(2usize, 1usize), (2, 2), (3, 1)] {
        match scenario(threads, per_thread) {
            Ok(n) => phases.push(serde_json::json!({"threads": threads + 1, "connections_per_spawned_thread": per_thread, "interleavings": n})),
            Err(e) => {
                violation = Some(format!("{} threads creating connections concurrently: {e}", threads + 1));
                break;
            }
        }
    }
    println!("{}", serde_json::json!({"phases": phases, "violation": violation}));
}
