//! C10, the case the library itself provides for: a service whose reply streams come from
//! `notified::State` / `notified::Once` (zlink-tokio and zlink-smol), run by the real `Server::run`
//! over a scripted listener.
//!
//! Service: `s.Set{v}` sets the state and answers `{v}`; `s.Get` answers the current value;
//! `s.Watch` answers with the state's stream; `s.Once{v}` answers with a one-shot stream that was
//! already notified with `v`.
//!
//! Every execution is an event history chosen by the explorer: 1..N clients, each event is one burst
//! from the alphabet arriving on one connection (a burst of up to a dozen `Set` calls is one event),
//! the server polled right away or (deviation) only after further events.  Oracle, per connection:
//! a `Set` / `Get` / `Once` caller gets exactly its replies, in order, whatever the subscribers do
//! (a state change never waits for a subscriber); a subscriber gets values in the order they were
//! set, possibly skipping some, each marked `continues`, and once the server is idle the last one it
//! got is the latest value set since it subscribed; the server never stops serving.

use serde::{Deserialize, Serialize};
use serde_json::{json, Value};
use simnet::{show, ScriptListener, Task, Wire};
use std::cell::RefCell;
use std::future::Future;
use std::pin::Pin;
use std::rc::Rc;
use std::task::Poll;
use xplore::{Ctx, Harness, Verdict, H64};
use zlink_core::service::MethodReply;
use zlink_core::{Call, Server, Service};

#[derive(Debug, Deserialize)]
#[serde(tag = "method", content = "parameters")]
pub enum Meth {
    #[serde(rename = "s.Set")]
    Set { v: u32 },
    #[serde(rename = "s.Get")]
    Get,
    #[serde(rename = "s.Watch")]
    Watch,
    #[serde(rename = "s.Once")]
    Once { v: u32 },
}

#[derive(Debug, Clone, Serialize, PartialEq)]
pub struct Val {
    pub v: u32,
}
impl From<u32> for Val {
    fn from(v: u32) -> Val {
        Val { v }
    }
}

#[derive(Debug, zlink_core::ReplyError)]
#[zlink(interface = "s", crate = "zlink_core")]
pub enum SErr {
    Never,
}

/// What the service was handed, in order: ('S', v) a set, ('W', 0) a subscription, ('G', current) …
type Log = Rc<RefCell<Vec<(char, u32)>>>;

macro_rules! state_service {
    ($name:ident, $krate:ident) => {
        pub struct $name {
            state: $krate::notified::State<u32, Val>,
            log: Log,
        }
        impl $name {
            pub fn new(log: Log) -> Self {
                $name { state: $krate::notified::State::new(0), log }
            }
            /// A clone of the state, as another task of the application would hold one.
            pub fn state_clone(&self) -> $krate::notified::State<u32, Val> {
                self.state.clone()
            }
        }
        impl Service for $name {
            type MethodCall<'de> = Meth;
            type ReplyParams<'ser> = Val;
            type ReplyStreamParams = Val;
            type ReplyStream = $krate::notified::Stream<Val>;
            type ReplyError<'ser> = SErr;

            async fn handle<'ser>(&'ser mut self, call: Call<Self::MethodCall<'_>>) -> MethodReply<Self::ReplyParams<'ser>, Self::ReplyStream, Self::ReplyError<'ser>> {
                match call.method() {
                    Meth::Set { v } => {
                        self.log.borrow_mut().push(('S', *v));
                        self.state.set(*v).await;
                        MethodReply::Single(Some(Val { v: *v }))
                    }
                    Meth::Get => {
                        let v = self.state.get();
                        self.log.borrow_mut().push(('G', v));
                        MethodReply::Single(Some(Val { v }))
                    }
                    Meth::Watch => {
                        self.log.borrow_mut().push(('W', 0));
                        MethodReply::Multi(self.state.stream())
                    }
                    Meth::Once { v } => {
                        self.log.borrow_mut().push(('O', *v));
                        let (once, stream) = $krate::notified::Once::new();
                        once.notify(*v);
                        MethodReply::Multi(stream)
                    }
                }
            }
        }
    };
}
state_service!(TokioSvc, zlink_tokio);
state_service!(SmolSvc, zlink_smol);

#[derive(Clone, Copy, Debug, PartialEq, Eq)]
pub enum B {
    Watch,
    Get,
    /// a burst of n `Set` calls in one arrival
    Sets(u8),
    /// a one-shot stream, with a `Get` pipelined behind it
    OnceGet,
    /// the client hangs up (also while it is subscribed)
    Hangup,
}

#[derive(Clone, Debug)]
pub struct StateScen {
    pub smol: bool,
    pub max_conns: usize,
    pub max_events: usize,
    pub bursts: Vec<B>,
    pub delay_polls: bool,
    /// a transport write may find the transport not ready once (a deviation)
    pub pend_writes: bool,
    /// while such a write is not ready, the state may be set (once) from outside the server, through a
    /// clone of the service's State - as another task of the application would do it
    pub outside_sets: bool,
}

impl StateScen {
    pub fn to_json(&self) -> Value {
        json!({"state_service": true, "smol": self.smol, "max_conns": self.max_conns, "max_events": self.max_events, "delay_polls": self.delay_polls, "pend_writes": self.pend_writes, "outside_sets": self.outside_sets,
            "bursts": self.bursts.iter().map(|b| match b { B::Watch => json!("Watch"), B::Get => json!("Get"), B::Sets(n) => json!(n), B::OnceGet => json!("OnceGet"), B::Hangup => json!("Hangup") }).collect::<Vec<_>>()})
    }
    pub fn from_json(v: &Value) -> Option<StateScen> {
        Some(StateScen {
            smol: v["smol"].as_bool()?,
            max_conns: v["max_conns"].as_u64()? as usize,
            max_events: v["max_events"].as_u64()? as usize,
            delay_polls: v["delay_polls"].as_bool()?,
            pend_writes: v["pend_writes"].as_bool().unwrap_or(false),
            outside_sets: v["outside_sets"].as_bool().unwrap_or(false),
            bursts: v["bursts"]
                .as_array()?
                .iter()
                .map(|b| match b.as_str() {
                    Some("Watch") => B::Watch,
                    Some("Get") => B::Get,
                    Some("Hangup") => B::Hangup,
                    Some(_) => B::OnceGet,
                    None => B::Sets(b.as_u64().unwrap_or(1) as u8),
                })
                .collect(),
        })
    }
}

struct ConnS {
    wire: Wire,
    /// what this connection has asked for, in order
    asked: Vec<Asked>,
    watching: bool,
    gone: bool,
}
#[derive(Clone, Debug)]
enum Asked {
    Set(u32),
    Get,
    Watch,
    Once(u32),
}

fn frames_of(wire: &Wire) -> Result<Vec<Value>, String> {
    let bytes = wire.written();
    if bytes.is_empty() {
        return Ok(vec![]);
    }
    if *bytes.last().unwrap() != 0 {
        return Err(format!("output `{}` does not end with NUL", show(&bytes)));
    }
    // `continues: false` and an absent `continues` are the same reply
    bytes[..bytes.len() - 1]
        .split(|b| *b == 0)
        .map(|f| {
            serde_json::from_slice::<Value>(f).map_err(|e| format!("frame `{}`: {e}", show(f))).map(|mut v| {
                if v.get("continues") == Some(&Value::Bool(false)) {
                    v.as_object_mut().unwrap().remove("continues");
                }
                v
            })
        })
        .collect()
}

impl Harness for StateScen {
    fn run(&self, cx: &Ctx) -> Verdict {
        let listener = ScriptListener::new();
        let log: Log = Rc::new(RefCell::new(Vec::new()));
        enum Outside {
            Tokio(zlink_tokio::notified::State<u32, Val>),
            Smol(zlink_smol::notified::State<u32, Val>),
        }
        let (mut fut, mut outside): (Pin<Box<dyn Future<Output = zlink_core::Result<()>>>>, Outside) = if self.smol {
            let svc = SmolSvc::new(log.clone());
            let o = Outside::Smol(svc.state_clone());
            (Box::pin(Server::new(listener.clone(), svc).run()), o)
        } else {
            let svc = TokioSvc::new(log.clone());
            let o = Outside::Tokio(svc.state_clone());
            (Box::pin(Server::new(listener.clone(), svc).run()), o)
        };
        let mut outside_left = if self.outside_sets { 1 } else { 0 };
        let mut outside_done = 0usize;
        let mut task = Task::new();
        let n = 1 + cx.choose(self.max_conns, "connections-1");
        let mut conns: Vec<ConnS> = (0..n).map(|i| ConnS { wire: Wire::new(i, Some(cx.clone())), asked: vec![], watching: false, gone: false }).collect();
        for c in &conns {
            // a write may find the transport not ready once (a deviation), then goes through
            c.wire.0.borrow_mut().write_pend_dev = self.pend_writes;
            listener.connect(c.wire.clone());
        }
        let mut next_v = 0u32;
        let what = |s: &str| format!("{} service: {s}", if self.smol { "zlink-smol" } else { "zlink-tokio" });
        macro_rules! settle {
            () => {
                let mut rounds = 0;
                while task.woken() {
                    if let Poll::Ready(r) = task.poll(fut.as_mut()) {
                        return Verdict::fail("server:run-returned", what(&format!("Server::run() completed with {r:?}")));
                    }
                    rounds += 1;
                    if rounds > 100_000 {
                        xplore::bug!("the server woke itself more than 100000 times without going idle");
                    }
                    // the server waits for a transport that is not ready: the moment another task of
                    // the application may set the state
                    if outside_left > 0 && conns.iter().any(|c| c.wire.0.borrow().write_just_pended) && conns.iter().any(|c| c.watching && !c.gone) && cx.choose(2, "state-set-from-outside-while-a-write-is-pending") == 1 {
                        outside_left -= 1;
                        outside_done += 1;
                        next_v += 1;
                        cx.log(|| format!("event: another task sets the state to {next_v} while a write waits for the transport"));
                        log.borrow_mut().push(('S', next_v));
                        match &mut outside {
                            Outside::Tokio(s) => simnet::complete(s.set(next_v)),
                            Outside::Smol(s) => simnet::complete(s.set(next_v)),
                        }
                        cx.goal("state-set-from-outside-while-a-write-is-pending");
                    }
                }
            };
        }
        settle!();
        let mut events = 0;
        while events < self.max_events {
            // enabled: every burst on every connection that is not parked in a subscription; stop
            let mut en: Vec<(usize, B)> = Vec::new();
            for (i, c) in conns.iter().enumerate() {
                if c.gone {
                    continue;
                }
                for b in &self.bursts {
                    // a subscribed client sends nothing more; it may hang up
                    if !c.watching || *b == B::Hangup {
                        en.push((i, *b));
                    }
                }
            }
            if en.is_empty() {
                break;
            }
            let k = cx.choose(en.len() + 1, "event:stop|burst");
            if k == 0 {
                break;
            }
            events += 1;
            let (i, b) = en[k - 1];
            let mut bytes = Vec::new();
            let mut push = |v: Value, bytes: &mut Vec<u8>| {
                bytes.extend_from_slice(&serde_json::to_vec(&v).unwrap());
                bytes.push(0);
            };
            match b {
                B::Hangup => {
                    cx.log(|| format!("event: conn {i} hangs up{}", if conns[i].watching { " (subscribed)" } else { "" }));
                    if conns[i].watching {
                        cx.goal("subscriber-hangs-up");
                    }
                    conns[i].gone = true;
                    conns[i].wire.close();
                    // its writes fail from now on
                    {
                        let mut w = conns[i].wire.0.borrow_mut();
                        let k = w.write_attempts;
                        w.write_fail_from = Some(k);
                    }
                    if self.delay_polls && events < self.max_events && cx.deviate("delay-server-poll") {
                        cx.goal("several-events-before-a-poll");
                        continue;
                    }
                    settle!();
                    continue;
                }
                B::Watch => {
                    push(json!({"method": "s.Watch", "more": true}), &mut bytes);
                    conns[i].asked.push(Asked::Watch);
                    conns[i].watching = true;
                    cx.goal("subscription");
                }
                B::Get => {
                    push(json!({"method": "s.Get"}), &mut bytes);
                    conns[i].asked.push(Asked::Get);
                }
                B::Sets(m) => {
                    for _ in 0..m {
                        next_v += 1;
                        push(json!({"method": "s.Set", "parameters": {"v": next_v}}), &mut bytes);
                        conns[i].asked.push(Asked::Set(next_v));
                    }
                    if conns.iter().any(|c| c.gone && c.watching) && conns.iter().any(|c| !c.gone && c.watching) {
                        cx.goal("state-changes-after-one-of-several-subscribers-hung-up");
                    }
                    if conns.iter().any(|c| c.watching) {
                        cx.goal("state-changes-while-subscribed");
                        if m >= 9 {
                            cx.goal("burst-of-state-changes-while-subscribed");
                        }
                    }
                }
                B::OnceGet => {
                    next_v += 1;
                    push(json!({"method": "s.Once", "parameters": {"v": next_v}, "more": true}), &mut bytes);
                    push(json!({"method": "s.Get"}), &mut bytes);
                    conns[i].asked.push(Asked::Once(next_v));
                    conns[i].asked.push(Asked::Get);
                    cx.goal("one-shot-stream");
                }
            }
            cx.log(|| format!("event: conn {i}: {b:?} arrives: {}", show(&bytes)));
            conns[i].wire.arrive(&bytes);
            if self.delay_polls && events < self.max_events && cx.deviate("delay-server-poll") {
                cx.goal("several-events-before-a-poll");
                continue;
            }
            settle!();
        }
        settle!();
        // the server is idle: judge every connection
        let log = log.borrow().clone();
        cx.log(|| format!("service handled: {log:?}"));
        let sets: Vec<u32> = log.iter().filter(|(k, _)| *k == 'S').map(|(_, v)| *v).collect();
        let mut h = H64::new();
        // the n-th subscription the service saw belongs to the n-th watcher in log order; which
        // connection that is does not matter for the rule: every watcher's items are judged against
        // the sets handled after SOME subscription point, the earliest one being the weakest demand
        for (i, c) in conns.iter().enumerate() {
            if c.gone {
                // a client that hung up is owed nothing; the others are owed everything
                continue;
            }
            let out = match frames_of(&c.wire) {
                Ok(o) => o,
                Err(e) => return Verdict::fail("server:output-not-json", what(&format!("conn {i}: {e}"))),
            };
            cx.log(|| format!("conn {i}: asked {:?}, got {}", c.asked, Value::Array(out.clone())));
            let mut pos = 0usize;
            for (ai, a) in c.asked.iter().enumerate() {
                match a {
                    Asked::Set(v) => {
                        if out.get(pos) != Some(&json!({"parameters": {"v": v}})) {
                            let class = if out.len() <= pos { "server:reply-missing-at-quiescence" } else { "server:unexpected-frame" };
                            return Verdict::fail(class, what(&format!("conn {i}: call #{ai} Set({v}) should be answered with {{v:{v}}}; output {} (service handled {} calls)", Value::Array(out.clone()), log.len())));
                        }
                        pos += 1;
                    }
                    Asked::Get => {
                        let ok = out.get(pos).and_then(|f| f["parameters"]["v"].as_u64()).map_or(false, |v| v == 0 || sets.contains(&(v as u32))) && out[pos].get("continues").is_none() && out[pos].get("error").is_none();
                        if !ok {
                            let class = if out.len() <= pos { "server:reply-missing-at-quiescence" } else { "server:unexpected-frame" };
                            return Verdict::fail(class, what(&format!("conn {i}: call #{ai} Get should be answered with a value that was set; output {}", Value::Array(out.clone()))));
                        }
                        pos += 1;
                    }
                    Asked::Once(v) => {
                        let f = out.get(pos);
                        let ok = f.map_or(false, |f| f["parameters"]["v"] == json!(v) && f.get("continues").map_or(true, |c| c == &json!(false)));
                        if !ok {
                            let class = if out.len() <= pos { "server:reply-missing-at-quiescence" } else { "server:one-shot-reply-wrong" };
                            return Verdict::fail(class, what(&format!("conn {i}: call #{ai} Once({v}) should get exactly one final reply {{v:{v}}}; output {}", Value::Array(out.clone()))));
                        }
                        pos += 1;
                    }
                    Asked::Watch => {
                        // everything from here on is the subscription's
                        let items = &out[pos.min(out.len())..];
                        let mut last_idx: Option<usize> = None;
                        for it in items {
                            let v = it["parameters"]["v"].as_u64().unwrap_or(u64::MAX);
                            let idx = sets.iter().position(|s| *s as u64 == v);
                            let fine = it["continues"] == json!(true) && it.get("error").is_none() && idx.is_some() && last_idx.map_or(true, |l| idx.unwrap() > l);
                            if !fine {
                                return Verdict::fail("server:subscription-item-wrong", what(&format!("conn {i}: item {it} is not a value set after the one before it, marked continues; items {}, values set {sets:?}", Value::Array(items.to_vec()))));
                            }
                            last_idx = idx;
                        }
                        // sets the service handled after it handled this connection's Watch: the k-th
                        // 'W' of the log is not attributable, so use the weakest reading: the sets
                        // after the LAST subscription in the log must have reached every subscriber
                        let last_w = log.iter().rposition(|(k, _)| *k == 'W').unwrap_or(0);
                        let after: Vec<u32> = log[last_w..].iter().filter(|(k, _)| *k == 'S').map(|(_, v)| *v).collect();
                        if let Some(latest) = after.last() {
                            let got_last = items.last().and_then(|it| it["parameters"]["v"].as_u64());
                            if got_last != Some(*latest as u64) {
                                return Verdict::fail("server:subscriber-missed-the-latest-value", what(&format!("conn {i}: the server is idle, {latest} was set after every subscription, yet the subscriber's items are {}", Value::Array(items.to_vec()))));
                            }
                            cx.goal("subscriber-got-the-latest-value");
                        }
                        pos = out.len();
                    }
                }
            }
            if pos < out.len() {
                return Verdict::fail("server:unexpected-frame", what(&format!("conn {i}: {} frame(s) more than asked for: {}", out.len() - pos, Value::Array(out.clone()))));
            }
            if c.wire.dropped() {
                return Verdict::fail("server:healthy-connection-dropped", what(&format!("conn {i} sent only valid calls, yet the server dropped it")));
            }
            h.u(out.len() as u64);
            for f in &out {
                h.u(f["parameters"]["v"].as_u64().unwrap_or(0));
            }
        }
        // every call that arrived from a client that is still there was handed to the service
        let asked: usize = conns.iter().filter(|c| !c.gone).map(|c| c.asked.len()).sum();
        let asked_all: usize = conns.iter().map(|c| c.asked.len()).sum();
        if log.len() < asked + outside_done || log.len() > asked_all + outside_done {
            return Verdict::fail("server:reply-missing-at-quiescence", what(&format!("{asked} calls arrived, the server is idle, the service was handed {}", log.len())));
        }
        cx.state(H64::new().u(log.len() as u64).u(sets.len() as u64).get());
        Verdict::Pass(h.get())
    }
}
