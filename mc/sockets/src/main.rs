//! sockets — C19 (real Unix sockets, tokio and smol) and C20 (notified state).

use serde_json::{json, Value};
use xplore::report::Report;
use xplore::{explore, sweep, Config, Verdict};

mod c19;
mod notified;
mod realsrv;
mod statesvc;

use c19::{RtKind, Sched, Spec};

fn tier_pick<T>(tier: &str, q: T, t: T) -> T {
    if tier == "thorough" {
        t
    } else {
        q
    }
}

fn run_c19(tier: &str) -> i32 {
    let mut rep = Report::new("C19", tier);
    rep.rule = "per runtime (tokio, smol): DFS over message sequences (1..3 messages, each size from the alphabet, some far larger than the 4.6 KB socket buffers) x driver schedules: the first N steps are choice points among {default = alternate sender/receiver, poll the sender, poll the receiver, drop the pending send future and go on} with a deviation budget, then the default schedule runs to completion; one- and two-directional traffic; plus 2..3 messages (one of 70..150 KB) sent with send_call or each as a chain of its own, one send abandoned at its 1st / 2nd / 4th pending poll, the rest and a final flush following, raw bytes compared at a std reader; plus a raw peer that writes 1..2 (thorough 3) frames of 9 B .. 6 KB and then shuts down its sending side / closes / closes with data of ours unread before the zlink end has read anything (every frame must still be received), also with our write half dropped first; plus listener cases {bound, inherited descriptor} x 1..8 clients; plus listeners {bound, inherited descriptor left in blocking mode, inherited descriptor in non-blocking mode} x 1..3 clients x for each client whether accept is polled before it connects (must come back pending, then complete) or after, with traffic both ways on every accepted connection (a watchdog turns a listener that blocks its thread into a verdict); plus, with loom, every interleaving of 3..4 threads that create connections (identifiers pairwise distinct). Every schedule is a real execution over a real socketpair on one thread. Distinct = distinct (received sequence, abandoned sends)".into();
    rep.assumptions = vec![
        "the kernel socket is a FIFO whose answers are a function of the operation sequence; how many bytes each write accepts is observed, not enumerated".into(),
        "connection identifiers are compared for distinctness within one process, sequentially (the counter is a single atomic fetch_add)".into(),
        "an abandoned send may still be delivered later (whole); what must never happen is a partial, duplicated or corrupted frame".into(),
    ];
    for g in ["message-larger-than-the-socket-buffer", "send-abandoned-while-pending", "message-sent-after-an-abandoned-one", "accept-polled-before-the-client-connects"] {
        rep.require_goal(g);
    }
    let cfg_base = Config { max_wall: std::time::Duration::from_secs(tier_pick(tier, 60, 1500)), ..Default::default() };
    for rt in [RtKind::Tokio, RtKind::Smol] {
        let plans: Vec<(String, Spec, u32)> = if tier == "thorough" {
            vec![
                (format!("{rt:?}/1-dir/<=3msgs/16slots/dev2"), Spec { rt, sizes: vec![1, 300, 6000, 70000], max_msgs: 3, slots: 16, bidir: false, cancels: true, small_buffers: true, abandon_within: 0, recv_cancels: false }, 2),
                (format!("{rt:?}/1-dir/<=2msgs/10slots/dev3"), Spec { rt, sizes: vec![300, 6000, 70000], max_msgs: 2, slots: 10, bidir: false, cancels: true, small_buffers: true, abandon_within: 0, recv_cancels: false }, 3),
                (format!("{rt:?}/2-dir/<=2msgs/12slots/dev2"), Spec { rt, sizes: vec![300, 70000], max_msgs: 2, slots: 12, bidir: true, cancels: true, small_buffers: true, abandon_within: 0, recv_cancels: false }, 2),
                (format!("{rt:?}/1MiB/default-buffers/12slots/dev1"), Spec { rt, sizes: vec![1 << 20], max_msgs: 2, slots: 12, bidir: false, cancels: true, small_buffers: false, abandon_within: 0, recv_cancels: false }, 1),
            ]
        } else {
            vec![
                (format!("{rt:?}/1-dir/<=2msgs/10slots/dev2"), Spec { rt, sizes: vec![1, 300, 6000, 70000], max_msgs: 2, slots: 10, bidir: false, cancels: true, small_buffers: true, abandon_within: 0, recv_cancels: false }, 2),
                (format!("{rt:?}/1-dir/3msgs/8slots/dev1"), Spec { rt, sizes: vec![300, 70000], max_msgs: 3, slots: 8, bidir: false, cancels: true, small_buffers: true, abandon_within: 0, recv_cancels: false }, 1),
                (format!("{rt:?}/2-dir/<=2msgs/8slots/dev1"), Spec { rt, sizes: vec![300, 70000], max_msgs: 2, slots: 8, bidir: true, cancels: true, small_buffers: true, abandon_within: 0, recv_cancels: false }, 1),
            ]
        };
        let mut plans = plans;
        // abandon one send after k sender polls, for every k: cancellation points deep inside long sends
        plans.push((format!("{rt:?}/abandon-after-k-polls/small-buffers"), Spec { rt, sizes: vec![300, 70000], max_msgs: 3, slots: 0, bidir: false, cancels: false, small_buffers: true, abandon_within: if tier == "thorough" { 40 } else { 24 }, recv_cancels: false }, 0));
        // several sends abandoned in a row (a retry that is itself abandoned before it made progress)
        plans.push((format!("{rt:?}/abandoned-retries/3msgs/{}slots/dev{}", if tier == "thorough" { 9 } else { 6 }, if tier == "thorough" { 3 } else { 2 }), Spec { rt, sizes: vec![6000, 70000], max_msgs: 3, slots: if tier == "thorough" { 9 } else { 6 }, bidir: false, cancels: true, small_buffers: true, abandon_within: 0, recv_cancels: false }, if tier == "thorough" { 3 } else { 2 }));
        plans.push((format!("{rt:?}/abandon-after-k-polls/default-buffers"), Spec { rt, sizes: vec![300, 400_000], max_msgs: 3, slots: 0, bidir: false, cancels: false, small_buffers: false, abandon_within: 6, recv_cancels: false }, 0));
        for (name, spec, budget) in plans {
            let cfg = Config { budget, ..cfg_base.clone() };
            let h = Sched(spec);
            rep.add(explore(&name, h.0.to_json(), &h, &cfg));
        }
    }
    // listeners
    rep.add(sweep("listeners", 2 * 2 * 8, &Config { threads: 4, ..cfg_base.clone() }, |i, s| {
        let rt = if i % 2 == 0 { RtKind::Tokio } else { RtKind::Smol };
        let inherited = (i / 2) % 2 == 1;
        let clients = (i / 4) as usize + 1;
        match c19::listener_case(rt, inherited, clients) {
            Ok(()) => {
                s.sample(|| json!({"runtime": format!("{rt:?}"), "listener": if inherited { "from inherited descriptor" } else { "bound" }, "clients": clients}));
                s.pass(i)
            }
            Err((c, d)) => s.fail(c, d, json!({"listener_case": i})),
        }
    }));
    // listeners, order of events: accept polled before / after each client connects
    {
        let cases = c19::listener_order_cases(if tier == "thorough" { 4 } else { 3 });
        rep.add(sweep("listeners/accept-before-or-after-connect", cases.len() as u64, &Config { threads: 4, ..cfg_base.clone() }, |i, s| {
            let (rt, mode, clients, mask) = cases[i as usize];
            if mask != 0 {
                s.goal("accept-polled-before-the-client-connects");
            }
            match c19::listener_order_case(rt, mode, clients, mask) {
                Ok(()) => {
                    s.sample(|| json!({"runtime": format!("{rt:?}"), "listener": c19::LISTENER_MODES[mode], "clients": clients, "accept_first_mask": mask}));
                    s.pass(i)
                }
                Err((c, d)) => s.fail(c, d, json!({"listener_order_case": [format!("{rt:?}"), mode, clients, mask]})),
            }
        }));
    }
    // sends (plain and whole chains) abandoned while pending, more sent afterwards: the raw bytes a std
    // reader gets at the other end
    rep.require_goal("chain-send-abandoned-then-another-chain");
    rep.add(abandoned_sends_sweep(tier, "sockets:"));
    // a raw peer that writes its frames and leaves before the zlink end reads anything; one half of
    // a split connection dropped while the other goes on
    rep.require_goal("peer-leaves-with-data-of-ours-unread");
    rep.require_goal("one-half-of-a-split-connection-dropped");
    rep.add(goodbye_sweep(tier, "sockets:"));
    // connection identifiers under threads: zlink-core's id counter is a loom atomic in the `loom`
    // build flavor; the child explores every interleaving of 3..4 threads creating connections
    {
        let child = xplore::report::build_dir("loom").join("release/loomids");
        let out = std::process::Command::new(&child).stderr(std::process::Stdio::null()).output();
        let v: serde_json::Value = match out {
            Ok(o) => serde_json::from_slice(o.stdout.split(|b| *b == b'\n').filter(|l| !l.is_empty()).last().unwrap_or(b"null")).unwrap_or(serde_json::Value::Null),
            Err(e) => {
                eprintln!("MACHINERY: cannot run {}: {e}", child.display());
                return 2;
            }
        };
        if v.is_null() {
            eprintln!("MACHINERY: {} printed no verdict", child.display());
            return 2;
        }
        let phases: Vec<serde_json::Value> = v["phases"].as_array().cloned().unwrap_or_default();
        let violation = v["violation"].as_str().map(|s| s.to_string());
        let n = phases.len() as u64 + violation.is_some() as u64;
        rep.add(sweep("connection-ids-under-threads(loom child)", n.max(1), &Config { threads: 1, ..cfg_base.clone() }, |i, s| match phases.get(i as usize) {
            Some(p) => {
                s.steps(p["interleavings"].as_u64().unwrap_or(1));
                s.sample(|| p.clone());
                s.pass(i)
            }
            None => s.fail("sockets:connection-ids-not-distinct", violation.clone().unwrap_or_else(|| "the loom child reported nothing".into()), json!({"loom": true})),
        }));
    }
    rep.finish()
}

/// C07 over the runtimes' real transports (child of the C07 check): pending receive futures are
/// dropped at scheduled moments and new ones started; what is received must still be exactly what
/// was sent.  Prints one JSON line.
fn c07_child(tier: &str) -> i32 {
    let cfg_base = Config { max_wall: std::time::Duration::from_secs(tier_pick(tier, 60, 900)), violation_beats_nondeterminism: true, ..Default::default() };
    let mut phases = Vec::new();
    for rt in [RtKind::Tokio, RtKind::Smol] {
        let th = tier == "thorough";
        let plans: Vec<(String, Spec, u32)> = vec![
            (format!("{rt:?}/recv-cancel/1-dir/<={}msgs/{}slots/dev2", if th { 3 } else { 2 }, if th { 14 } else { 9 }), Spec { rt, sizes: vec![1, 300, 6000, 70000], max_msgs: if th { 3 } else { 2 }, slots: if th { 14 } else { 9 }, bidir: false, cancels: false, small_buffers: true, abandon_within: 0, recv_cancels: true }, 2),
            (format!("{rt:?}/recv-cancel/2-dir/<=2msgs/8slots/dev{}", if th { 2 } else { 1 }), Spec { rt, sizes: vec![300, 70000], max_msgs: 2, slots: 8, bidir: true, cancels: false, small_buffers: true, abandon_within: 0, recv_cancels: true }, if th { 2 } else { 1 }),
            (format!("{rt:?}/recv-cancel/default-buffers/<=2msgs/6slots/dev1"), Spec { rt, sizes: vec![300, 9000, 250_000], max_msgs: 2, slots: 6, bidir: false, cancels: false, small_buffers: false, abandon_within: 0, recv_cancels: true }, 1),
        ];
        for (name, spec, budget) in plans {
            let cfg = Config { budget, ..cfg_base.clone() };
            let h = Sched(spec);
            let st = explore(&name, h.0.to_json(), &h, &cfg);
            eprintln!("[C07 child] phase {name}: {} executions, {} violation classes, {:.1}s", st.evals, st.violations.len(), st.wall);
            phases.push(st);
        }
    }
    println!("{}", xplore::report::child_json(&phases, "C19"));
    0
}

/// C10 with the reply streams the library itself provides (`notified::State` / `Once` of zlink-tokio
/// and zlink-smol) behind the real `Server::run` (child of the C10 check).  Prints one JSON line.
fn c10_child(tier: &str) -> i32 {
    state_service_child(tier, false)
}

/// The hang-up phases alone (child of the C09 check).
fn c09_child(tier: &str) -> i32 {
    state_service_child(tier, true)
}

fn state_service_child(tier: &str, only_hangups: bool) -> i32 {
    use statesvc::{StateScen, B};
    let cfg = Config { max_wall: std::time::Duration::from_secs(tier_pick(tier, 60, 900)), budget: 1, ..Default::default() };
    let th = tier == "thorough";
    let mut phases = Vec::new();
    for smol in [false, true] {
        let name = if smol { "smol" } else { "tokio" };
        let plans = vec![
            (format!("{name}/notified-state-service/<=2conns/4events"), StateScen { smol, max_conns: 2, max_events: 4, bursts: vec![B::Watch, B::Get, B::Sets(1), B::Sets(2), B::Sets(9), B::Sets(12), B::OnceGet], delay_polls: true, pend_writes: false, outside_sets: false }),
            (format!("{name}/notified-state-service/<=3conns/{}events", if th { 5 } else { 4 }), StateScen { smol, max_conns: 3, max_events: if th { 5 } else { 4 }, bursts: vec![B::Watch, B::Sets(1), B::Sets(10), B::OnceGet], delay_polls: true, pend_writes: true, outside_sets: false }),
            // subscribers that hang up: the state's other subscribers, later subscriptions and the callers of Set are owed what they were owed before
            (format!("{name}/notified-state-service/subscribers-that-hang-up/<=3conns/{}events", if th { 6 } else { 5 }), StateScen { smol, max_conns: 3, max_events: if th { 6 } else { 5 }, bursts: vec![B::Watch, B::Sets(1), B::Sets(2), B::Hangup], delay_polls: true, pend_writes: false, outside_sets: false }),
        ];
        for (pname, h) in plans {
            if only_hangups && !h.bursts.contains(&B::Hangup) {
                continue;
            }
            let st = explore(&pname, h.to_json(), &h, &cfg);
            eprintln!("[C10 child] phase {pname}: {} executions, {} violation classes, {:.1}s", st.evals, st.violations.len(), st.wall);
            phases.push(st);
        }
    }
    println!("{}", xplore::report::child_json(&phases, "C19"));
    0
}

/// `Server::run` over the shipped transports and listeners with plain std clients (children of
/// the C08 and C18 checks).  Prints one JSON line.
/// Only the streaming call with a 700 KB item, over both transports (child of the C10 check).
fn c10_real_child(tier: &str) -> i32 {
    use realsrv::{Ending, RealSrv, K};
    let cfg = Config { max_wall: std::time::Duration::from_secs(tier_pick(tier, 60, 900)), violation_beats_nondeterminism: true, ..Default::default() };
    let mut phases = Vec::new();
    for smol in [false, true] {
        let h = RealSrv { smol, max_clients: 2, bursts: vec![vec![K::W, K::P], vec![K::P, K::W]], endings: vec![Ending::Stays], fairness: false, paired: true };
        let pname = format!("{}/real-listener+transport/stream-with-a-700KB-item", if smol { "smol" } else { "tokio" });
        let st = explore(&pname, h.to_json(), &h, &cfg);
        eprintln!("[real-server child] phase {pname}: {} executions, {} violation classes, {:.1}s", st.evals, st.violations.len(), st.wall);
        phases.push(st);
    }
    println!("{}", xplore::report::child_json(&phases, "C19"));
    0
}

fn realsrv_child(tier: &str, fairness: bool) -> i32 {
    use realsrv::{Ending, RealSrv, K};
    let cfg = Config { max_wall: std::time::Duration::from_secs(tier_pick(tier, 60, 900)), violation_beats_nondeterminism: true, ..Default::default() };
    let th = tier == "thorough";
    let mut phases = Vec::new();
    for smol in [false, true] {
        let name = if smol { "smol" } else { "tokio" };
        let (pname, h) = if fairness {
            (
                format!("{name}/real-listener+transport/fairness/<={}clients", if th { 4 } else { 3 }),
                RealSrv { smol, max_clients: if th { 4 } else { 3 }, bursts: vec![vec![K::P], vec![K::P, K::P, K::P, K::P], vec![K::B], vec![K::P, K::B, K::P]], endings: vec![Ending::Stays], fairness: true, paired: false },
            )
        } else {
            let mut bursts = vec![vec![K::P], vec![K::O], vec![K::P, K::P], vec![K::O, K::P], vec![K::P, K::O], vec![K::F, K::P], vec![K::B], vec![K::O, K::O]];
            if th {
                bursts.extend([vec![K::H], vec![K::P, K::H, K::O]]);
            }
            (format!("{name}/real-listener+transport/<=2clients/clients-that-hang-up"), RealSrv { smol, max_clients: 2, bursts, endings: vec![Ending::Stays, Ending::HalfCloses, Ending::Closes], fairness: false, paired: false })
        };
        let st = explore(&pname, h.to_json(), &h, &cfg);
        eprintln!("[real-server child] phase {pname}: {} executions, {} violation classes, {:.1}s", st.evals, st.violations.len(), st.wall);
        phases.push(st);
        if !fairness {
            // calls and replies larger than the kernel's socket buffers: the server's write of a reply
            // is taken in pieces while the client reads
            let h = RealSrv { smol, max_clients: 2, bursts: vec![vec![K::G], vec![K::P, K::G], vec![K::W, K::P]], endings: vec![Ending::Stays, Ending::ClosesUnread], fairness: false, paired: true };
            let pname = format!("{name}/real-listener+transport/<=2clients/300KB-calls-and-replies");
            let st = explore(&pname, h.to_json(), &h, &cfg);
            eprintln!("[real-server child] phase {pname}: {} executions, {} violation classes, {:.1}s", st.evals, st.violations.len(), st.wall);
            phases.push(st);
        }
    }
    println!("{}", xplore::report::child_json(&phases, "C19"));
    0
}

/// C03 over the shipped transports (child of the C03 check): the raw bytes a std reader gets from a
/// real socket pair.  Prints one JSON line.
fn c03_child(tier: &str) -> i32 {
    let cfg = Config { max_wall: std::time::Duration::from_secs(tier_pick(tier, 60, 900)), threads: 8, ..Default::default() };
    let cases = c19::raw_wire_cases(tier_pick(tier, 2, 3));
    let st = sweep("raw-wire-bytes/tokio+smol", cases.len() as u64, &cfg, |i, s| {
        let (rt, sizes, drain, small) = &cases[i as usize];
        if sizes.iter().any(|z| *z > 100_000) {
            s.goal("message-of-more-than-100KB-over-a-real-socket");
        }
        match c19::raw_wire_case(*rt, sizes, *drain, *small, None, 0) {
            Ok(n) => {
                s.steps(sizes.len() as u64);
                s.pass(xplore::H64::new().u(i).u(n).get())
            }
            Err((c, d)) => s.fail(c, format!("{rt:?}: {d}"), json!({"raw_wire_case": [format!("{rt:?}"), sizes, if *drain == usize::MAX { json!("all") } else { json!(drain) }, small]})),
        }
    });
    eprintln!("[C03 child] {} cases, {} violation classes, {:.1}s", st.evals, st.violations.len(), st.wall);
    println!("{}", xplore::report::child_json(&[st], "C19"));
    0
}

/// C02 over the shipped transports (child of the C02 check): sends abandoned while pending, more
/// messages sent afterwards; the raw bytes at the other end of the real socket pair must be every
/// message once, in order, each followed by one NUL.  Prints one JSON line.
fn c02_child(tier: &str) -> i32 {
    let st = abandoned_sends_sweep(tier, "outframe:");
    eprintln!("[C02 child] {} cases, {} violation classes, {:.1}s", st.evals, st.violations.len(), st.wall);
    println!("{}", xplore::report::child_json(&[st], "C19"));
    0
}

/// A raw peer that writes its frames and goes away before the zlink end reads (child of C01 / C07, part of C19).
fn goodbye_sweep(tier: &str, class_prefix: &str) -> xplore::Stats {
    let cfg = Config { max_wall: std::time::Duration::from_secs(tier_pick(tier, 60, 900)), threads: 8, ..Default::default() };
    let cases = c19::goodbye_cases(tier_pick(tier, 2, 3));
    sweep("peer-writes-then-leaves/tokio+smol", cases.len() as u64, &cfg, |i, s| {
        let (rt, sizes, g, d) = &cases[i as usize];
        s.goal("peer-leaves-before-anything-was-read");
        if *g == 2 {
            s.goal("peer-leaves-with-data-of-ours-unread");
        }
        if *d {
            s.goal("one-half-of-a-split-connection-dropped");
        }
        match c19::goodbye_case(*rt, sizes, *g, *d) {
            Ok(n) => {
                s.steps(n);
                s.pass(xplore::H64::new().u(i).get())
            }
            Err((c, det)) => s.fail(c.replace("sockets:", class_prefix), format!("{rt:?}: {det}"), json!({"goodbye_case": [format!("{rt:?}"), sizes, g, d]})),
        }
    })
}

/// Child of C12: the calls of a generated proxy method over the zlink-tokio / zlink-smol transports,
/// a raw reader at the other end: sequences of calls with arguments of 300 B .. 150 KB, and sequences
/// in which one call is abandoned while its write is pending and further calls follow.
fn c12_child(tier: &str) -> i32 {
    let cfg = Config { max_wall: std::time::Duration::from_secs(tier_pick(tier, 60, 900)), threads: 8, ..Default::default() };
    let ab: Vec<_> = c19::raw_wire_abandon_cases(tier == "thorough").into_iter().filter(|c| c.5 == 2).collect();
    let plain: Vec<_> = c19::raw_wire_cases(2).into_iter().filter(|c| c.2 == 0 || c.2 == usize::MAX).collect();
    let n = (ab.len() + plain.len()) as u64;
    let st = sweep("generated-proxy-method-over-real-sockets/tokio+smol", n, &cfg, |i, s| {
        let i = i as usize;
        let (rt, sizes, drain, small, abandon) = if i < ab.len() {
            s.goal("proxy-call-abandoned-then-another-proxy-call");
            let c = &ab[i];
            (c.0, c.1.clone(), c.2, c.3, Some(c.4))
        } else {
            s.goal("proxy-calls-of-several-socket-writes");
            let c = &plain[i - ab.len()];
            (c.0, c.1.clone(), c.2, c.3, None)
        };
        match c19::raw_wire_case(rt, &sizes, drain, small, abandon, 2) {
            Ok(n) => {
                s.steps(sizes.len() as u64);
                s.pass(xplore::H64::new().u(i as u64).u(n).get())
            }
            Err((c, d)) => s.fail(c.replace("jsoneq:", "proxy:").replace("sockets:", "proxy:"), format!("{rt:?}: {d}"), json!({"raw_wire_case": [format!("{rt:?}"), sizes, if drain == usize::MAX { json!("all") } else { json!(drain) }, small, abandon.map(|a| json!([a.0, a.1])).unwrap_or(Value::Null), 2]})),
        }
    });
    eprintln!("[C12 child] {} cases, {} violation classes, {:.1}s", st.evals, st.violations.len(), st.wall);
    println!("{}", xplore::report::child_json(&[st], "C19"));
    0
}

fn c01_child(tier: &str) -> i32 {
    let st = goodbye_sweep(tier, "framing:");
    eprintln!("[C01 child] {} cases, {} violation classes, {:.1}s", st.evals, st.violations.len(), st.wall);
    println!("{}", xplore::report::child_json(&[st], "C19"));
    0
}

fn abandoned_sends_sweep(tier: &str, class_prefix: &str) -> xplore::Stats {
    let cfg = Config { max_wall: std::time::Duration::from_secs(tier_pick(tier, 60, 900)), threads: 8, ..Default::default() };
    let cases = c19::raw_wire_abandon_cases(tier == "thorough");
    sweep("raw-wire-bytes/abandoned-sends/tokio+smol", cases.len() as u64, &cfg, |i, s| {
        let (rt, sizes, drain, small, ab, chains) = &cases[i as usize];
        s.goal("send-abandoned-then-more-messages-over-a-real-socket");
        if *chains == 1 {
            s.goal("chain-send-abandoned-then-another-chain");
        }
        if *chains == 2 {
            s.goal("proxy-call-abandoned-then-another-proxy-call");
        }
        match c19::raw_wire_case(*rt, sizes, *drain, *small, Some(*ab), *chains) {
            Ok(n) => {
                s.steps(sizes.len() as u64);
                s.pass(xplore::H64::new().u(i).u(n).get())
            }
            Err((c, d)) => s.fail(c.replace("jsoneq:", class_prefix), format!("{rt:?}: {d}"), json!({"raw_wire_case": [format!("{rt:?}"), sizes, if *drain == usize::MAX { json!("all") } else { json!(drain) }, small, [ab.0, ab.1], chains]})),
        }
    })
}

fn run_c20(tier: &str) -> i32 {
    let mut rep = Report::new("C20", tier);
    rep.rule = "DFS over every operation sequence of up to N operations over {set(fresh value), subscribe (<=3), poll(subscriber i), clone the state handle, drop a state handle}, each run against zlink_tokio::notified and zlink_smol::notified on one thread with hand-polled streams; plus the 4 one-shot scenarios x 2 crates; plus a service built on notified::State behind the real Server::run (scripted listener) with up to 3 clients that subscribe, set the state and hang up: the surviving subscribers have the latest value once the server is idle. Distinct = distinct observation logs".into();
    rep.assumptions = vec![
        "the channel libraries underneath are linearizable, so thread interleavings reduce to the operation sequences enumerated here".into(),
        "a subscriber that returns Pending is `drained`: its last item must then be the latest value set since it subscribed".into(),
    ];
    for g in ["polls-interleaved-with-several-sets", "set-without-any-subscriber", "state-handle-dropped", "subscriber-drained-after-items"] {
        rep.require_goal(g);
    }
    let cfg = Config { max_wall: std::time::Duration::from_secs(tier_pick(tier, 60, 1500)), ..Default::default() };
    let max_ops = tier_pick(tier, 8, 10);
    let h = notified::Seqs { max_ops };
    rep.add(explore(&format!("op-sequences/<={max_ops}"), notified::seqs_config(max_ops), &h, &cfg));
    let cases = notified::once_cases();
    // the notified types where they are meant to be used: behind Server::run, with several subscribers,
    // some of which hang up (what the subscribers get is then decided by the server's handling of the
    // streams as much as by the streams themselves)
    {
        use statesvc::{StateScen, B};
        rep.require_goal("state-changes-after-one-of-several-subscribers-hung-up");
        rep.require_goal("state-set-from-outside-while-a-write-is-pending");
        for smol in [false, true] {
            let h = StateScen { smol, max_conns: 3, max_events: tier_pick(tier, 5, 6), bursts: vec![B::Watch, B::Sets(1), B::Sets(2), B::Hangup], delay_polls: true, pend_writes: false, outside_sets: false };
            // the same clients without hang-ups, where a write may find the transport not ready once
            let h2 = StateScen { smol, max_conns: 3, max_events: tier_pick(tier, 4, 5), bursts: vec![B::Watch, B::Sets(1), B::Sets(2), B::OnceGet], delay_polls: true, pend_writes: true, outside_sets: false };
            rep.add(explore(&format!("{}/behind-the-server/transport-not-ready-once", if smol { "smol" } else { "tokio" }), h2.to_json(), &h2, &Config { budget: 1, ..cfg.clone() }));
            // ... and while the server waits for it, another task of the application sets the state
            // through a clone of the service's State
            let h3 = StateScen { smol, max_conns: 2, max_events: tier_pick(tier, 4, 5), bursts: vec![B::Watch, B::Sets(1), B::Sets(2)], delay_polls: false, pend_writes: true, outside_sets: true };
            rep.add(explore(&format!("{}/behind-the-server/state-set-from-outside-while-a-write-is-pending", if smol { "smol" } else { "tokio" }), h3.to_json(), &h3, &Config { budget: 1, ..cfg.clone() }));
            let c = Config { budget: 1, ..cfg.clone() };
            rep.add(explore(&format!("{}/behind-the-server/subscribers-that-hang-up", if smol { "smol" } else { "tokio" }), h.to_json(), &h, &c));
        }
    }
    rep.add(sweep("one-shot", cases.len() as u64, &Config { threads: 1, ..cfg.clone() }, |i, s| match &cases[i as usize] {
        (name, Ok(())) => {
            s.sample(|| json!({"one_shot": name}));
            s.pass(i)
        }
        (name, Err((c, d))) => s.fail(c.clone(), d.clone(), json!({"one_shot": name})),
    }));
    rep.finish()
}

fn replay(path: &str) -> i32 {
    let txt = match std::fs::read_to_string(path) {
        Ok(t) => t,
        Err(e) => {
            eprintln!("MACHINERY: cannot read {path}: {e}");
            return 2;
        }
    };
    let v: Value = match serde_json::from_str(&txt) {
        Ok(v) => v,
        Err(e) => {
            eprintln!("MACHINERY: cannot parse {path}: {e}");
            return 2;
        }
    };
    let prop = v["property"].as_str().unwrap_or("").to_string();
    let choices: Vec<u32> = v["choices"].as_array().map(|a| a.iter().map(|x| x.as_u64().unwrap_or(0) as u32).collect()).unwrap_or_default();
    let budget = v["budget"].as_u64().unwrap_or(0) as u32;
    let (trace, verdict) = if v["kind"] == "sweep" {
        match prop.as_str() {
            "C19" if v["case"]["loom"] == true => {
                // the loom child explores the interleavings again (vcheck --replay built it)
                let child = xplore::report::build_dir("loom").join("release/loomids");
                let out = std::process::Command::new(&child).stderr(std::process::Stdio::inherit()).output();
                let j: Value = out.ok().and_then(|o| serde_json::from_slice(o.stdout.split(|b| *b == b'\n').filter(|l| !l.is_empty()).last().unwrap_or(b"null")).ok()).unwrap_or(Value::Null);
                (vec![format!("loom child: {j}")], Ok(match j["violation"].as_str() {
                    Some(d) => Verdict::fail("sockets:connection-ids-not-distinct", d.to_string()),
                    None if j.is_null() => Verdict::fail("sockets:loom-child-failed", "no verdict from the loom child".to_string()),
                    None => Verdict::Pass(0),
                }))
            }
            "C19" if v["case"]["goodbye_case"].is_array() => {
                let c = &v["case"]["goodbye_case"];
                let rt = if c[0] == "Tokio" { RtKind::Tokio } else { RtKind::Smol };
                let sizes: Vec<usize> = c[1].as_array().map(|a| a.iter().map(|x| x.as_u64().unwrap_or(9) as usize).collect()).unwrap_or_default();
                let r = c19::goodbye_case(rt, &sizes, c[2].as_u64().unwrap_or(0) as usize, c[3].as_bool().unwrap_or(false));
                (vec![format!("goodbye case {c}")], Ok(match r {
                    Ok(_) => Verdict::Pass(0),
                    Err((c, d)) => Verdict::fail(c, d),
                }))
            }
            "C19" if v["case"]["raw_wire_case"].is_array() => {
                let c = &v["case"]["raw_wire_case"];
                let rt = if c[0] == "Tokio" { RtKind::Tokio } else { RtKind::Smol };
                let sizes: Vec<usize> = c[1].as_array().map(|a| a.iter().map(|x| x.as_u64().unwrap_or(300) as usize).collect()).unwrap_or_default();
                let drain = c[2].as_u64().map(|d| d as usize).unwrap_or(usize::MAX);
                let abandon = c.get(4).and_then(|a| a.as_array()).map(|a| (a[0].as_u64().unwrap_or(0) as usize, a[1].as_u64().unwrap_or(1) as usize));
                let r = c19::raw_wire_case(rt, &sizes, drain, c[3].as_bool().unwrap_or(true), abandon, c.get(5).map_or(0, |x| x.as_u64().unwrap_or(x.as_bool().unwrap_or(false) as u64) as u8));
                (vec![format!("raw wire case {c}")], Ok(match r {
                    Ok(_) => Verdict::Pass(0),
                    Err((c, d)) => Verdict::fail(c, d),
                }))
            }
            "C19" if v["case"]["listener_order_case"].is_array() => {
                let c = &v["case"]["listener_order_case"];
                let rt = if c[0] == "Tokio" { RtKind::Tokio } else { RtKind::Smol };
                let r = c19::listener_order_case(rt, c[1].as_u64().unwrap_or(0) as usize, c[2].as_u64().unwrap_or(1) as usize, c[3].as_u64().unwrap_or(0) as u32);
                (vec![format!("listener order case {c}")], Ok(match r {
                    Ok(()) => Verdict::Pass(0),
                    Err((c, d)) => Verdict::fail(c, d),
                }))
            }
            "C19" => {
                let i = v["case"]["listener_case"].as_u64().unwrap_or(0);
                let r = c19::listener_case(if i % 2 == 0 { RtKind::Tokio } else { RtKind::Smol }, (i / 2) % 2 == 1, (i / 4) as usize + 1);
                (vec![format!("listener case {i}")], Ok(match r {
                    Ok(()) => Verdict::Pass(0),
                    Err((c, d)) => Verdict::fail(c, d),
                }))
            }
            _ => {
                let name = v["case"]["one_shot"].as_str().unwrap_or("");
                let r = notified::once_cases().into_iter().find(|(n, _)| n == name);
                (vec![format!("one-shot case {name}")], Ok(match r {
                    Some((_, Err((c, d)))) => Verdict::fail(c, d),
                    _ => Verdict::Pass(0),
                }))
            }
        }
    } else if prop == "C19" && v["harness"]["real_server"] == true {
        match realsrv::RealSrv::from_json(&v["harness"]) {
            Some(s) => xplore::replay(&s, budget, &choices),
            None => {
                eprintln!("MACHINERY: cannot rebuild the real-server harness");
                return 2;
            }
        }
    } else if v["harness"]["state_service"] == true {
        match statesvc::StateScen::from_json(&v["harness"]) {
            Some(s) => xplore::replay(&s, budget, &choices),
            None => {
                eprintln!("MACHINERY: cannot rebuild the state-service harness");
                return 2;
            }
        }
    } else if prop == "C19" {
        match Spec::from_json(&v["harness"]) {
            Some(s) => xplore::replay(&Sched(s), budget, &choices),
            None => {
                eprintln!("MACHINERY: cannot rebuild the C19 harness");
                return 2;
            }
        }
    } else {
        xplore::replay(&notified::Seqs { max_ops: v["harness"]["max_ops"].as_u64().unwrap_or(7) as usize }, budget, &choices)
    };
    for l in trace {
        println!("{l}");
    }
    match verdict {
        Ok(Verdict::Pass(_)) => {
            println!("replay of {path}: the property HOLDS on this execution now");
            0
        }
        Ok(Verdict::Fail(f)) => {
            println!("VIOLATION property={prop} replay={path}\n  class: {}\n  detail: {}", f.class, f.detail);
            1
        }
        Err(e) if e.starts_with("BUG: ") => {
            eprintln!("MACHINERY: {e}");
            2
        }
        Err(e) => {
            println!("VIOLATION property={prop} replay={path}\n  class: {}\n  detail: {e}", xplore::panic_class(&e));
            1
        }
    }
}

fn main() {
    let args: Vec<String> = std::env::args().skip(1).collect();
    let tier = args.iter().position(|a| a == "--tier").and_then(|i| args.get(i + 1)).map(|s| s.as_str()).unwrap_or("quick").to_string();
    let code = match args.first().map(|s| s.as_str()) {
        Some("c19") => run_c19(&tier),
        Some("c20") => run_c20(&tier),
        Some("c07-child") => c07_child(&tier),
        Some("c10-child") => c10_child(&tier),
        Some("c09-child") => c09_child(&tier),
        Some("c03-child") => c03_child(&tier),
        Some("c01-child") => c01_child(&tier),
        Some("c02-child") => c02_child(&tier),
        Some("c12-child") => c12_child(&tier),
        Some("c08-child") => realsrv_child(&tier, false),
        Some("c10-real-child") => c10_real_child(&tier),
        Some("c18-child") => realsrv_child(&tier, true),
        Some("--replay") => replay(args.get(1).map(|s| s.as_str()).unwrap_or("")),
        _ => {
            eprintln!("usage: sockets c19|c20 [--tier quick|thorough] | --replay <file>");
            2
        }
    };
    std::process::exit(code);
}
