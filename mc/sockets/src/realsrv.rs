//! `Server::run` over the transports and listeners zlink ships (zlink-tokio, zlink-smol), with
//! plain `std` Unix-socket clients: children of the C08 and C18 checks.
//!
//! Every execution is one history chosen by the explorer: 1..3 clients; for each its burst of calls
//! (one write), how it ends (stays / half-closes its sending side / closes), whether it ends right
//! after writing - before the server has looked at anything - or only after the server went idle;
//! and whether the server is first run before the clients connect, before they write, or only when
//! everything is already in the sockets.  The server future is polled by hand on one thread (for
//! tokio inside the runtime context, with the I/O driver turned before every poll) until nothing
//! changes any more.
//!
//! Oracle: a client that can still read gets exactly the replies its calls are owed, in order, on
//! its own connection (also after it half-closed: everything it sent before hanging up counts);
//! the service is handed every call of such a client exactly once, in order; a client that closed
//! altogether is judged leniently (its replies have nowhere to go), except that calls flagged
//! oneway in front of the first reply-owing call must still be handled.  Fairness (C18): when all
//! calls are in the sockets before the server looks and the connection set does not change, no
//! client is served a second time before every other client with a complete call has been served.

use serde_json::{json, Value};
use simnet::svc::TestSvc;
use std::future::Future;
use std::io::{Read, Write};
use std::os::unix::net::UnixStream as StdStream;
use std::pin::Pin;
use std::task::{Context, Poll, Wake, Waker};
use xplore::{Ctx, Harness, Verdict, H64};
use zlink_core::Server;

struct Flag;
impl Wake for Flag {
    fn wake(self: std::sync::Arc<Self>) {}
}

#[derive(Clone, Copy, Debug, PartialEq, Eq)]
pub enum K {
    /// plain call
    P,
    /// oneway call
    O,
    /// call answered with an error
    F,
    /// plain call of about 350 bytes
    B,
    /// plain call of about 5 KB
    H,
    /// plain call of about 300 KB: call and reply are larger than the kernel's socket buffers
    G,
    /// streaming call: once the server is idle the service's stream produces a small item, one of
    /// about 700 KB (several socket writes) and a final small one, then ends
    W,
}

fn call(kind: K, id: u32) -> (Vec<u8>, Option<Value>) {
    let tag = match kind {
        K::B => format!("big-{id}-{}", "\u{e4}bcdefghi".repeat(30)),
        K::H => format!("huge-{id}-{}", "\u{e4}bcdefghi".repeat(500)),
        K::G => format!("giant-{id}-{}", "\u{e4}bcdefghi".repeat(30_000)),
        _ => format!("t\u{e4}g-{id}"),
    };
    let (v, reply) = match kind {
        K::P | K::B | K::H | K::G => (json!({"method": "t.Plain", "parameters": {"n": id, "tag": tag}}), Some(json!({"parameters": {"n": id, "tag": tag}}))),
        K::O => (json!({"method": "t.Plain", "parameters": {"n": id, "tag": tag}, "oneway": true}), None),
        K::W => (json!({"method": "t.Watch", "parameters": {"k": id}, "more": true}), None),
        K::F => (json!({"method": "t.Fail", "parameters": {"n": id}}), Some(json!({"error": "t.Failed", "parameters": {"n": id}}))),
    };
    let mut f = serde_json::to_vec(&v).unwrap();
    f.push(0);
    (f, reply)
}

/// The three items of stream `k`: (what the service's stream yields, what the client must receive).
fn stream_items(k: u32) -> Vec<(zlink_core::Reply<simnet::svc::Out>, Value)> {
    let tags = [format!("first-{k}"), format!("snapshot-{k}-{}", "\u{e4}bcdefghi".repeat(70_000)), format!("last-{k}")];
    tags.into_iter()
        .enumerate()
        .map(|(i, tag)| {
            let last = i == 2;
            let out = simnet::svc::Out { n: k * 10 + i as u32, tag: tag.clone() };
            let mut v = json!({"parameters": {"n": out.n, "tag": tag}});
            if !last {
                v["continues"] = json!(true);
            }
            (zlink_core::Reply::new(Some(out)).set_continues(Some(!last)), v)
        })
        .collect()
}

#[derive(Clone, Copy, Debug, PartialEq, Eq)]
pub enum Ending {
    Stays,
    HalfCloses,
    Closes,
    /// never reads what the server sends and closes once the server is idle (a reply larger than
    /// the socket buffer is then stuck half-written when the connection goes away)
    ClosesUnread,
}

#[derive(Clone, Debug)]
pub struct RealSrv {
    pub smol: bool,
    pub max_clients: usize,
    pub bursts: Vec<Vec<K>>,
    pub endings: Vec<Ending>,
    /// fairness only: every client stays, everything is written before the server looks
    pub fairness: bool,
    /// two clients: the first one as chosen from `bursts` / `endings`, the second one a plain call
    /// and stays; the server first runs before the writes (for the expensive 300 KB messages)
    pub paired: bool,
}

impl RealSrv {
    pub fn to_json(&self) -> Value {
        json!({"real_server": true, "smol": self.smol, "max_clients": self.max_clients, "fairness": self.fairness, "paired": self.paired,
            "bursts": self.bursts.iter().map(|b| b.iter().map(|k| format!("{k:?}")).collect::<Vec<_>>()).collect::<Vec<_>>(),
            "endings": self.endings.iter().map(|e| format!("{e:?}")).collect::<Vec<_>>()})
    }
    pub fn from_json(v: &Value) -> Option<RealSrv> {
        let k = |s: &str| match s {
            "P" => K::P,
            "O" => K::O,
            "F" => K::F,
            "B" => K::B,
            "G" => K::G,
            "W" => K::W,
            _ => K::H,
        };
        Some(RealSrv {
            smol: v["smol"].as_bool()?,
            max_clients: v["max_clients"].as_u64()? as usize,
            fairness: v["fairness"].as_bool()?,
            paired: v["paired"].as_bool().unwrap_or(false),
            bursts: v["bursts"].as_array()?.iter().map(|b| b.as_array().unwrap().iter().map(|x| k(x.as_str().unwrap_or("P"))).collect()).collect(),
            endings: v["endings"]
                .as_array()?
                .iter()
                .map(|e| match e.as_str() {
                    Some("HalfCloses") => Ending::HalfCloses,
                    Some("Closes") => Ending::Closes,
                    Some("ClosesUnread") => Ending::ClosesUnread,
                    _ => Ending::Stays,
                })
                .collect(),
        })
    }
}

struct Client {
    sock: Option<StdStream>,
    kinds: Vec<K>,
    ids: Vec<u32>,
    expected: Vec<Value>,
    ending: Ending,
    early: bool,
    out: Vec<u8>,
    ended: bool,
    pending: Vec<u8>,
}

impl Client {
    fn drain(&mut self) {
        if self.ending == Ending::ClosesUnread {
            return;
        }
        if let Some(s) = self.sock.as_mut() {
            let mut buf = [0u8; 65536];
            loop {
                match s.read(&mut buf) {
                    Ok(0) => break,
                    Ok(n) => self.out.extend_from_slice(&buf[..n]),
                    Err(_) => break,
                }
            }
        }
    }
    fn end(&mut self) {
        if self.ended {
            return;
        }
        self.ended = true;
        match self.ending {
            Ending::Stays => {}
            Ending::HalfCloses => {
                if let Some(s) = &self.sock {
                    let _ = s.shutdown(std::net::Shutdown::Write);
                }
            }
            Ending::Closes | Ending::ClosesUnread => {
                self.drain();
                self.sock = None;
            }
        }
    }
}

impl Harness for RealSrv {
    fn run(&self, cx: &Ctx) -> Verdict {
        let dir = std::env::temp_dir().join(format!("zlink-verif-rs-{}-{:?}", std::process::id(), std::thread::current().id()));
        let _ = std::fs::remove_dir_all(&dir);
        if let Err(e) = std::fs::create_dir_all(&dir) {
            xplore::bug!("cannot create {}: {e}", dir.display());
        }
        let path = dir.join("s");
        let r = self.run_in(cx, &path);
        let _ = std::fs::remove_dir_all(&dir);
        r
    }
}

impl RealSrv {
    fn run_in(&self, cx: &Ctx, path: &std::path::Path) -> Verdict {
        let what = |s: &str| format!("{} transport: {s}", if self.smol { "zlink-smol" } else { "zlink-tokio" });
        // tokio: everything happens inside the runtime context of a current-thread runtime that is
        // never handed a task: its I/O driver is turned explicitly
        let trt = if self.smol { None } else { Some(tokio::runtime::Builder::new_current_thread().enable_io().build().expect("tokio runtime")) };
        let _guard = trt.as_ref().map(|r| r.enter());
        let (svc, shared) = TestSvc::new();
        let mut fut: Pin<Box<dyn Future<Output = zlink_core::Result<()>>>> = if self.smol {
            match zlink_smol::unix::bind(path) {
                Ok(l) => Box::pin(Server::new(l, svc).run()),
                Err(e) => xplore::bug!("smol bind: {e:?}"),
            }
        } else {
            match zlink_tokio::unix::bind(path) {
                Ok(l) => Box::pin(Server::new(l, svc).run()),
                Err(e) => xplore::bug!("tokio bind: {e:?}"),
            }
        };
        let waker = Waker::from(std::sync::Arc::new(Flag));
        let n = if self.paired { 2 } else { 1 + cx.choose(self.max_clients, "clients-1") };
        let mut clients: Vec<Client> = Vec::new();
        for i in 0..n {
            let fixed = self.paired && i == 1;
            let kinds = if fixed { vec![K::P] } else { self.bursts[cx.choose(self.bursts.len(), "burst")].clone() };
            let ending = if self.fairness || fixed { Ending::Stays } else { self.endings[cx.choose(self.endings.len(), "ending:stays|half-closes|closes")] };
            let early = ending != Ending::Stays && cx.choose(2, "ends:after-the-server-went-idle|right-after-writing") == 1;
            let ids: Vec<u32> = (0..kinds.len()).map(|j| (i as u32 + 1) * 100 + j as u32).collect();
            let expected: Vec<Value> = kinds.iter().zip(&ids).flat_map(|(k, id)| if *k == K::W { stream_items(*id).into_iter().map(|(_, v)| v).collect::<Vec<_>>() } else { call(*k, *id).1.into_iter().collect() }).collect();
            clients.push(Client { sock: None, kinds, ids, expected, ending, early, out: vec![], ended: false, pending: vec![] });
        }
        // when the server first runs: before the clients connect / before they write / only at the end
        let first_run = if self.fairness || self.paired { 1 } else { cx.choose(3, "server-first-runs:before-connects|before-writes|after-everything") };
        let log_len = || shared.log.borrow().len();
        macro_rules! settle {
            () => {{
                let mut quiet = 0;
                let mut rounds = 0;
                while quiet < 3 {
                    rounds += 1;
                    if rounds > 2000 {
                        return Verdict::fail("server:never-goes-idle", what("the server kept making progress for 2000 rounds"));
                    }
                    let before = (log_len(), clients.iter().map(|c| c.out.len()).sum::<usize>());
                    if let Some(r) = &trt {
                        r.block_on(async {
                            tokio::task::yield_now().await;
                            tokio::task::yield_now().await;
                        });
                    } else {
                        // let async-io's reactor thread see the new readiness
                        std::thread::sleep(std::time::Duration::from_micros(200));
                    }
                    let mut tcx = Context::from_waker(&waker);
                    if let Poll::Ready(r) = fut.as_mut().poll(&mut tcx) {
                        return Verdict::fail("server:run-returned", what(&format!("Server::run() completed with {r:?}")));
                    }
                    for c in clients.iter_mut() {
                        c.drain();
                    }
                    let after = (log_len(), clients.iter().map(|c| c.out.len()).sum::<usize>());
                    if after == before {
                        quiet += 1;
                    } else {
                        quiet = 0;
                    }
                }
            }};
        }
        if first_run == 0 {
            settle!();
        }
        for c in clients.iter_mut() {
            match StdStream::connect(path) {
                Ok(s) => {
                    s.set_nonblocking(true).expect("nonblocking");
                    c.sock = Some(s);
                }
                Err(e) => return Verdict::fail("sockets:connect-failed", what(&format!("{e}"))),
            }
        }
        if first_run <= 1 {
            settle!();
        }
        for (i, c) in clients.iter_mut().enumerate() {
            let mut bytes = Vec::new();
            for (k, id) in c.kinds.iter().zip(&c.ids) {
                bytes.extend_from_slice(&call(*k, *id).0);
            }
            cx.log(|| format!("client {i}: writes {:?} ({} bytes), then {:?}{}", c.kinds, bytes.len(), c.ending, if c.early { " at once" } else { "" }));
            c.pending = bytes;
        }
        // the clients write what they have (a burst larger than the socket buffers goes out piecemeal
        // while the server runs and the others read); a write that makes no progress for a long time
        // is stuck behind a client that does not read and is taken up again once that one has left
        macro_rules! pump {
            () => {{
                let mut idle = 0;
                while clients.iter().any(|c| !c.pending.is_empty() && c.sock.is_some()) && idle < 300 {
                    let mut progress = false;
                    for c in clients.iter_mut() {
                        if !c.pending.is_empty() {
                            if let Some(s) = c.sock.as_mut() {
                                match s.write(&c.pending) {
                                    Ok(n) if n > 0 => {
                                        c.pending.drain(..n);
                                        progress = true;
                                    }
                                    Ok(_) => {}
                                    Err(e) if e.kind() == std::io::ErrorKind::WouldBlock => {}
                                    Err(e) => xplore::bug!("client write: {e}"),
                                }
                            }
                        }
                        if c.pending.is_empty() && c.early {
                            c.end();
                        }
                    }
                    if let Some(r) = &trt {
                        r.block_on(async {
                            tokio::task::yield_now().await;
                            tokio::task::yield_now().await;
                        });
                    }
                    let mut tcx = Context::from_waker(&waker);
                    if let Poll::Ready(r) = fut.as_mut().poll(&mut tcx) {
                        return Verdict::fail("server:run-returned", what(&format!("Server::run() completed with {r:?}")));
                    }
                    for c in clients.iter_mut() {
                        c.drain();
                    }
                    idle = if progress { 0 } else { idle + 1 };
                }
            }};
        }
        pump!();
        settle!();
        // streams the service has opened produce their items and end
        for c in clients.iter() {
            for (k, id) in c.kinds.iter().zip(&c.ids) {
                if *k == K::W {
                    let Some(h) = shared.streams.borrow().get(id).cloned() else { return Verdict::fail("server:call-never-handled", what(&format!("the streaming call {id} was never handed to the service"))) };
                    for (item, _) in stream_items(*id) {
                        h.produce(item);
                    }
                    h.end();
                    cx.goal("stream-item-of-several-socket-writes");
                }
            }
        }
        settle!();
        for c in clients.iter_mut() {
            if c.pending.is_empty() {
                c.end();
            }
        }
        pump!();
        settle!();
        for c in clients.iter_mut() {
            c.end();
        }
        settle!();
        if let Some(c) = clients.iter().find(|c| !c.pending.is_empty() && c.ending != Ending::ClosesUnread && c.ending != Ending::Closes) {
            return Verdict::fail("server:stopped-reading", what(&format!("a client could not get rid of the last {} bytes of its calls {:?}: the server does not read them although every client that did not read has left", c.pending.len(), c.kinds)));
        }
        // judge
        let log: Vec<u32> = shared.log.borrow().iter().map(|h| h.id).collect();
        cx.log(|| format!("service handled {log:?}"));
        let mut h = H64::new();
        for (i, c) in clients.iter().enumerate() {
            let mine: Vec<u32> = log.iter().copied().filter(|id| id / 100 == i as u32 + 1).collect();
            let frames: Vec<Value> = if c.out.is_empty() {
                vec![]
            } else {
                let body = if c.out.last() == Some(&0) { &c.out[..c.out.len() - 1] } else { &c.out[..] };
                body.split(|b| *b == 0)
                    .map(|f| {
                        serde_json::from_slice::<Value>(f).map(|mut v| {
                            if v.get("continues") == Some(&Value::Bool(false)) {
                                v.as_object_mut().unwrap().remove("continues");
                            }
                            v
                        })
                    })
                    .collect::<Result<_, _>>()
                    .unwrap_or_else(|_| vec![json!({"unparseable-output": simnet::show(&c.out)})])
            };
            cx.log(|| format!("client {i} ({:?}, {:?}): got {}", c.kinds, c.ending, Value::Array(frames.clone())));
            match c.ending {
                Ending::Stays | Ending::HalfCloses => {
                    if mine != c.ids {
                        return Verdict::fail(
                            if mine.len() < c.ids.len() { "server:call-never-handled" } else { "server:service-saw-wrong-calls" },
                            what(&format!("client {i} sent calls {:?} ({:?}) and then {}; the service was handed {mine:?}", c.ids, c.kinds, if c.ending == Ending::Stays { "stayed connected" } else { "shut down its sending side" })),
                        );
                    }
                    if frames != c.expected {
                        return Verdict::fail(
                            if frames.len() < c.expected.len() { "server:reply-missing-at-quiescence" } else { "server:unexpected-frame" },
                            what(&format!("client {i} ({:?}, {:?}) got {} but is owed {}", c.kinds, c.ending, Value::Array(frames.clone()), Value::Array(c.expected.clone()))),
                        );
                    }
                }
                Ending::Closes | Ending::ClosesUnread => {
                    // replies have nowhere to go; what the service saw must be a prefix of what was
                    // sent, and the oneway calls in front of the first reply-owing call are all handled
                    if mine.len() > c.ids.len() || mine[..] != c.ids[..mine.len()] {
                        return Verdict::fail("server:service-saw-wrong-calls", what(&format!("client {i} sent {:?}, the service was handed {mine:?}", c.ids)));
                    }
                    let leading_oneway = c.kinds.iter().take_while(|k| **k == K::O).count();
                    if mine.len() < leading_oneway {
                        return Verdict::fail("server:call-never-handled", what(&format!("client {i} sent {:?} and closed; of the {leading_oneway} oneway call(s) in front only {} reached the service", c.kinds, mine.len())));
                    }
                }
            }
            h.u(mine.len() as u64).u(frames.len() as u64);
        }
        if self.fairness && n >= 2 {
            // every client had a complete call in its socket before the server looked: nobody is
            // served twice before everybody was served once
            let mut seen: Vec<u32> = Vec::new();
            for id in &log {
                let who = id / 100;
                if seen.contains(&who) {
                    if seen.len() < n {
                        return Verdict::fail("fairness:served-twice-while-another-waited", what(&format!("service order {log:?}: client {} was served a second time while another client's complete call had been waiting in its socket all along", who - 1)));
                    }
                    break;
                }
                seen.push(who);
            }
            cx.goal("several-clients-with-calls-ready-before-the-server-looks");
        }
        if clients.iter().any(|c| c.ending == Ending::ClosesUnread && c.kinds.contains(&K::G)) && clients.iter().any(|c| c.ending == Ending::Stays) {
            cx.goal("client-leaves-a-large-reply-half-written-while-another-is-served");
        }
        if clients.iter().any(|c| c.ending == Ending::HalfCloses && c.early) {
            cx.goal("client-half-closes-before-the-server-reads");
        }
        if clients.iter().any(|c| c.ending == Ending::Closes && c.kinds.first() == Some(&K::O)) {
            cx.goal("oneway-call-then-close");
        }
        cx.state(H64::new().u(log.len() as u64).get());
        h.u(log.len() as u64);
        Verdict::Pass(h.get())
    }
}
