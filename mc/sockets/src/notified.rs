//! C20 — notified state: subscribers converge on the latest value, in order; tokio ≡ smol.
//!
//! Every operation sequence up to a bound over {set(v), subscribe, poll(i), clone the state, drop a
//! state handle} is run against both crates (single thread, futures polled by hand); each
//! subscriber's observations are checked against the latest-value rule and the two logs are compared.

use futures_util::Stream;
use serde_json::{json, Value};
use std::pin::Pin;
use std::sync::atomic::{AtomicBool, Ordering};
use std::sync::Arc;
use std::task::{Context, Poll, Wake, Waker};
use xplore::{Ctx, Harness, Verdict, H64};
use zlink_core::Reply;

struct Flag(AtomicBool);
impl Wake for Flag {
    fn wake(self: Arc<Self>) {
        self.0.store(true, Ordering::SeqCst)
    }
    fn wake_by_ref(self: &Arc<Self>) {
        self.0.store(true, Ordering::SeqCst)
    }
}

fn block<F: std::future::Future>(f: F) -> Option<F::Output> {
    let flag = Arc::new(Flag(AtomicBool::new(false)));
    let w = Waker::from(flag.clone());
    let mut cx = Context::from_waker(&w);
    let mut f = std::pin::pin!(f);
    for _ in 0..1000 {
        if let Poll::Ready(v) = f.as_mut().poll(&mut cx) {
            return Some(v);
        }
        if !flag.0.swap(false, Ordering::SeqCst) {
            return None;
        }
    }
    None
}

#[derive(Clone, Copy, Debug, PartialEq, Eq)]
pub enum Op {
    Set,
    Subscribe,
    Poll(usize),
    CloneState,
    DropState,
}

#[derive(Clone, Debug, PartialEq, Eq)]
pub enum Obs {
    Item(u32, Option<bool>),
    Pending,
    End,
    SetOk,
    SetPanicked,
    SetStalled,
    Nothing,
}

/// What both crates' APIs look like to the driver.
pub trait Api {
    type State;
    type Stream: Stream<Item = Reply<u32>> + Unpin;
    fn new(v: u32) -> Self::State;
    fn set(s: &mut Self::State, v: u32) -> Obs;
    fn get(s: &Self::State) -> u32;
    fn stream(s: &Self::State) -> Self::Stream;
    fn clone_state(s: &Self::State) -> Self::State;
}

macro_rules! api {
    ($name:ident, $krate:ident) => {
        pub struct $name;
        impl Api for $name {
            type State = $krate::notified::State<u32, u32>;
            type Stream = $krate::notified::Stream<u32>;
            fn new(v: u32) -> Self::State {
                $krate::notified::State::new(v)
            }
            fn set(s: &mut Self::State, v: u32) -> Obs {
                match std::panic::catch_unwind(std::panic::AssertUnwindSafe(|| block(s.set(v)))) {
                    Ok(Some(())) => Obs::SetOk,
                    Ok(None) => Obs::SetStalled,
                    Err(_) => Obs::SetPanicked,
                }
            }
            fn get(s: &Self::State) -> u32 {
                s.get()
            }
            fn stream(s: &Self::State) -> Self::Stream {
                s.stream()
            }
            fn clone_state(s: &Self::State) -> Self::State {
                s.clone()
            }
        }
    };
}
api!(TokioApi, zlink_tokio);
api!(SmolApi, zlink_smol);

struct Sub<S> {
    stream: S,
    flag: Arc<Flag>,
    /// values set since this subscriber was created (what it may still see)
    since: Vec<u32>,
    seen: Vec<u32>,
    ended: bool,
    pending_last: bool,
}

/// Run one operation sequence; returns the observation log or a violation of the rule.
fn run_ops<A: Api>(ops: &[Op], who: &str) -> Result<Vec<Obs>, (String, String)> {
    let mut states: Vec<A::State> = vec![A::new(0)];
    let mut subs: Vec<Sub<A::Stream>> = vec![];
    let mut next_val = 1u32;
    let mut latest = 0u32;
    let mut log = Vec::new();
    for (step, op) in ops.iter().enumerate() {
        let ctx = |d: String| (format!("{who}, ops {ops:?}, step {step}: {d}"));
        let obs = match op {
            Op::Set => {
                if states.is_empty() {
                    Obs::Nothing
                } else {
                    let v = next_val;
                    next_val += 1;
                    for s in subs.iter_mut() {
                        s.flag.0.store(false, Ordering::SeqCst);
                    }
                    let o = A::set(&mut states[0], v);
                    match o {
                        Obs::SetPanicked => return Err(("notified:set-panicked".into(), ctx(format!("State::set({v}) panicked ({} subscribers)", subs.len())))),
                        Obs::SetStalled => return Err(("notified:set-blocked".into(), ctx(format!("State::set({v}) did not complete")))),
                        _ => {}
                    }
                    latest = v;
                    if A::get(&states[0]) != v {
                        return Err(("notified:get-after-set-differs".into(), ctx(format!("get() = {} after set({v})", A::get(&states[0])))));
                    }
                    for (i, s) in subs.iter_mut().enumerate() {
                        s.since.push(v);
                        // a subscriber that was told `Pending` must be woken by the next set
                        if s.pending_last && !s.ended && !s.flag.0.load(Ordering::SeqCst) {
                            return Err(("notified:pending-subscriber-not-woken".into(), ctx(format!("subscriber {i} returned Pending and was not woken by set({v})"))));
                        }
                        // woken once: nothing more is owed until it is polled again
                        s.pending_last = false;
                    }
                    o
                }
            }
            Op::Subscribe => {
                if states.is_empty() || subs.len() >= 3 {
                    Obs::Nothing
                } else {
                    subs.push(Sub { stream: A::stream(&states[0]), flag: Arc::new(Flag(AtomicBool::new(false))), since: vec![], seen: vec![], ended: false, pending_last: false });
                    Obs::Nothing
                }
            }
            Op::Poll(i) => match subs.get_mut(*i) {
                None => Obs::Nothing,
                Some(s) => {
                    let w = Waker::from(s.flag.clone());
                    let mut cx = Context::from_waker(&w);
                    s.flag.0.store(false, Ordering::SeqCst);
                    match Pin::new(&mut s.stream).poll_next(&mut cx) {
                        Poll::Ready(Some(r)) => {
                            let v = *r.parameters().unwrap_or(&u32::MAX);
                            s.pending_last = false;
                            // in order, from the values set since subscription, each at most once
                            let last_idx = s.seen.last().and_then(|l| s.since.iter().position(|x| x == l));
                            let idx = s.since.iter().position(|x| *x == v);
                            match (idx, last_idx) {
                                (None, _) => return Err(("notified:item-was-never-set-for-this-subscriber".into(), ctx(format!("subscriber {i} got {v}; set since it subscribed: {:?}", s.since)))),
                                (Some(a), Some(b)) if a <= b => return Err(("notified:items-out-of-order-or-repeated".into(), ctx(format!("subscriber {i} got {v} after {:?}", s.seen)))),
                                _ => {}
                            }
                            if r.continues() != Some(true) {
                                return Err(("notified:item-not-marked-continuing".into(), ctx(format!("subscriber {i}: continues = {:?}", r.continues()))));
                            }
                            s.seen.push(v);
                            Obs::Item(v, r.continues())
                        }
                        Poll::Ready(None) => {
                            s.ended = true;
                            if !states.is_empty() {
                                return Err(("notified:subscription-ended-while-state-exists".into(), ctx(format!("subscriber {i} got end-of-stream, {} state handle(s) alive", states.len()))));
                            }
                            Obs::End
                        }
                        Poll::Pending => {
                            s.pending_last = true;
                            // drained: the last item must be the latest value set since subscription
                            if let Some(l) = s.since.last() {
                                if s.seen.last() != Some(l) {
                                    return Err(("notified:latest-value-not-delivered".into(), ctx(format!("subscriber {i} is drained (Pending) but never saw the latest value {l}; saw {:?} of {:?}", s.seen, s.since))));
                                }
                            }
                            Obs::Pending
                        }
                    }
                }
            },
            Op::CloneState => {
                if states.is_empty() || states.len() >= 3 {
                    Obs::Nothing
                } else {
                    let c = A::clone_state(&states[0]);
                    if A::get(&c) != latest {
                        return Err(("notified:clone-has-stale-value".into(), ctx(format!("clone.get() = {} but latest is {latest}", A::get(&c)))));
                    }
                    // the clone becomes the handle that is used from now on
                    states.insert(0, c);
                    Obs::Nothing
                }
            }
            Op::DropState => {
                if states.is_empty() {
                    Obs::Nothing
                } else {
                    states.pop();
                    Obs::Nothing
                }
            }
        };
        log.push(obs);
    }
    Ok(log)
}

pub struct Seqs {
    pub max_ops: usize,
}

impl Harness for Seqs {
    fn run(&self, cx: &Ctx) -> Verdict {
        let n = 1 + cx.choose(self.max_ops, "ops-1");
        let mut ops = Vec::new();
        let mut nsubs = 0usize;
        for _ in 0..n {
            // set, subscribe, clone, drop, poll(i) for every existing subscriber
            let c = cx.choose(4 + nsubs, "op:set|subscribe|clone|drop|poll-i");
            let op = match c {
                0 => Op::Set,
                1 => {
                    if nsubs < 3 {
                        nsubs += 1;
                    }
                    Op::Subscribe
                }
                2 => Op::CloneState,
                3 => Op::DropState,
                k => Op::Poll(k - 4),
            };
            ops.push(op);
        }
        cx.log(|| format!("ops: {ops:?}"));
        let sets = ops.iter().filter(|o| **o == Op::Set).count();
        if sets >= 2 && ops.iter().any(|o| matches!(o, Op::Poll(_))) {
            cx.goal("polls-interleaved-with-several-sets");
        }
        if ops.first() == Some(&Op::Set) {
            cx.goal("set-without-any-subscriber");
        }
        if ops.contains(&Op::DropState) {
            cx.goal("state-handle-dropped");
        }
        let t = match run_ops::<TokioApi>(&ops, "zlink_tokio") {
            Ok(l) => l,
            Err((c, d)) => return Verdict::Fail(xplore::Violation { class: format!("{c}:tokio"), detail: d }),
        };
        let s = match run_ops::<SmolApi>(&ops, "zlink_smol") {
            Ok(l) => l,
            Err((c, d)) => return Verdict::Fail(xplore::Violation { class: format!("{c}:smol"), detail: d }),
        };
        cx.log(|| format!("tokio: {t:?}\nsmol:  {s:?}"));
        if t != s {
            return Verdict::fail("notified:tokio-and-smol-differ", format!("ops {ops:?}: tokio observed {t:?}, smol observed {s:?}"));
        }
        if t.iter().any(|o| matches!(o, Obs::Item(..))) && t.iter().any(|o| *o == Obs::Pending) {
            cx.goal("subscriber-drained-after-items");
        }
        // a lagging subscriber: two sets, then a poll that skips the first value
        let mut h = H64::new();
        for o in &t {
            h.s(&format!("{o:?}"));
        }
        cx.state(h.get());
        Verdict::Pass(h.get())
    }
}

/// One-shot notification: notify before / after the first poll, notifier dropped, poll after completion.
pub fn once_cases() -> Vec<(String, Result<(), (String, String)>)> {
    fn poll<S: Stream<Item = Reply<u32>> + Unpin>(s: &mut S) -> (Obs, bool) {
        let flag = Arc::new(Flag(AtomicBool::new(false)));
        let w = Waker::from(flag.clone());
        let mut cx = Context::from_waker(&w);
        let o = match Pin::new(s).poll_next(&mut cx) {
            Poll::Ready(Some(r)) => Obs::Item(*r.parameters().unwrap_or(&u32::MAX), r.continues()),
            Poll::Ready(None) => Obs::End,
            Poll::Pending => Obs::Pending,
        };
        (o, flag.0.load(Ordering::SeqCst))
    }
    let mut out = Vec::new();
    macro_rules! scenario {
        ($krate:ident, $name:expr, $pre_poll:expr, $notify:expr) => {{
            let r = std::panic::catch_unwind(|| {
                let (once, mut stream) = $krate::notified::Once::<u32>::new();
                let mut log = Vec::new();
                if $pre_poll {
                    log.push(poll(&mut stream).0);
                }
                if $notify {
                    once.notify(7u32);
                } else {
                    drop(once);
                }
                log.push(poll(&mut stream).0);
                log.push(poll(&mut stream).0);
                log.push(poll(&mut stream).0);
                log
            });
            (format!("{}: {}", stringify!($krate), $name), r)
        }};
    }
    for (name, pre, notify) in [("notify before the first poll", false, true), ("notify after a pending poll", true, true), ("notifier dropped without notifying", false, false), ("notifier dropped after a pending poll", true, false)] {
        for (who, r) in [scenario!(zlink_tokio, name, pre, notify), scenario!(zlink_smol, name, pre, notify)] {
            let verdict = match r {
                Err(_) => Err(("notified:once-panicked".to_string(), who.clone())),
                Ok(log) => {
                    let mut expect = Vec::new();
                    if pre {
                        expect.push(Obs::Pending);
                    }
                    if notify {
                        expect.push(Obs::Item(7, Some(false)));
                    }
                    while expect.len() < log.len() {
                        expect.push(Obs::End);
                    }
                    if log == expect {
                        Ok(())
                    } else {
                        Err(("notified:once-wrong-sequence".to_string(), format!("{who}: observed {log:?}, expected {expect:?}")))
                    }
                }
            };
            out.push((who, verdict));
        }
    }
    out
}

pub fn seqs_config(max_ops: usize) -> Value {
    json!({"what": "notified", "max_ops": max_ops})
}
