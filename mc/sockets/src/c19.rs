//! C19 — end to end over real Unix sockets (tokio and smol).
//!
//! Everything runs on ONE thread per execution: a socketpair with the smallest kernel buffers, one
//! zlink connection on each end, and a driver that decides every step: poll the sender, poll the
//! receiver, or drop the pending send future and go on to the next message.  The first `slots` steps
//! are explorer choice points (default: alternate sender/receiver; any other action costs one
//! deviation); after them the default schedule runs to completion.

use serde::{Deserialize, Serialize};
use serde_json::{json, Value};
use std::future::Future;
use std::os::fd::OwnedFd;
use std::os::unix::net::UnixStream as StdUnixStream;
use std::pin::Pin;
use std::sync::atomic::{AtomicBool, Ordering};
use std::sync::Arc;
use std::task::{Context, Poll, Wake, Waker};
use xplore::{Ctx, Harness, Verdict, H64};
use zlink_core::connection::{ReadConnection, Socket, WriteConnection};
use zlink_core::{Call, Connection};

#[derive(Debug, Serialize, Deserialize)]
pub struct Pay {
    pub x: String,
}

#[derive(Clone, Copy, Debug, PartialEq, Eq)]
pub enum RtKind {
    Tokio,
    Smol,
}

struct Flag(AtomicBool);
impl Wake for Flag {
    fn wake(self: Arc<Self>) {
        self.0.store(true, Ordering::SeqCst)
    }
}
fn waker() -> Waker {
    Waker::from(Arc::new(Flag(AtomicBool::new(false))))
}
fn poll_once<F: Future + ?Sized>(f: Pin<&mut F>) -> Poll<F::Output> {
    let w = waker();
    let mut cx = Context::from_waker(&w);
    f.poll(&mut cx)
}

fn small_pair(small: bool) -> (StdUnixStream, StdUnixStream) {
    let (a, b) = StdUnixStream::pair().expect("socketpair");
    for s in [&a, &b] {
        s.set_nonblocking(true).expect("nonblocking");
        if small {
            use std::os::fd::AsRawFd;
            let v: libc::c_int = 1; // the kernel raises it to its minimum
            for opt in [libc::SO_SNDBUF, libc::SO_RCVBUF] {
                let r = unsafe { libc::setsockopt(s.as_raw_fd(), libc::SOL_SOCKET, opt, &v as *const _ as *const libc::c_void, std::mem::size_of::<libc::c_int>() as u32) };
                assert_eq!(r, 0, "setsockopt");
            }
        }
    }
    (a, b)
}

/// The runtime-specific part: how to make a zlink socket from a std stream and how to let the
/// runtime's I/O driver see new readiness.
pub trait Rt {
    type Sock: Socket + 'static;
    fn new() -> Self;
    fn wrap(&self, s: StdUnixStream) -> Self::Sock;
    fn turn(&self);
}

pub struct TokioRt {
    rt: tokio::runtime::Runtime,
}
impl Rt for TokioRt {
    type Sock = zlink_tokio::unix::Stream;
    fn new() -> Self {
        TokioRt { rt: tokio::runtime::Builder::new_current_thread().enable_io().build().expect("tokio runtime") }
    }
    fn wrap(&self, s: StdUnixStream) -> Self::Sock {
        let _g = self.rt.enter();
        zlink_tokio::unix::Stream::from(tokio::net::UnixStream::from_std(s).expect("from_std"))
    }
    fn turn(&self) {
        // two trips through the scheduler let the I/O driver deliver readiness events
        self.rt.block_on(async {
            tokio::task::yield_now().await;
            tokio::task::yield_now().await;
        });
    }
}

pub struct SmolRt;
impl Rt for SmolRt {
    type Sock = zlink_smol::unix::Stream;
    fn new() -> Self {
        SmolRt
    }
    fn wrap(&self, s: StdUnixStream) -> Self::Sock {
        zlink_smol::unix::Stream::from(async_io::Async::new(s).expect("Async::new"))
    }
    fn turn(&self) {}
}

pub fn message(id: usize, size: usize, dir: char) -> Call<Pay> {
    // {"x":"<dir><id>:pad"} is 8 + len bytes; sizes below 12 are raised to it
    let head = format!("{dir}{id}:");
    let pad_len = size.saturating_sub(8 + head.len());
    let mut x = head;
    x.extend((0..pad_len).map(|i| (b'a' + ((i * 7 + id) % 26) as u8) as char));
    Call::new(Pay { x })
}

type SendFut = Pin<Box<dyn Future<Output = zlink_core::Result<()>>>>;
type RecvFut = Pin<Box<dyn Future<Output = zlink_core::Result<Call<Pay>>>>>;

/// One direction: a sender half, a receiver half, the messages, and what happened so far.
struct Lane<S: Socket> {
    w: *mut WriteConnection<S::WriteHalf>,
    r: *mut ReadConnection<S::ReadHalf>,
    msgs: Vec<Call<Pay>>,
    next: usize,
    sending: Option<(usize, SendFut)>,
    receiving: Option<RecvFut>,
    completed: Vec<usize>,
    cancelled: Vec<usize>,
    received: Vec<String>,
    recv_idle: u32,
    recv_error: Option<String>,
    send_error: Option<String>,
}

impl<S: Socket + 'static> Lane<S> {
    fn sender_active(&self) -> bool {
        self.send_error.is_none() && (self.sending.is_some() || self.next < self.msgs.len())
    }
    fn poll_send(&mut self, cx: &Ctx) {
        if self.send_error.is_some() {
            return;
        }
        if self.sending.is_none() {
            if self.next >= self.msgs.len() {
                return;
            }
            let k = self.next;
            self.next += 1;
            // SAFETY: the connection outlives every future (they are dropped first) and at most one
            // send future exists at a time.
            let fut: SendFut = Box::pin(unsafe { (*self.w).send_call(&*(&self.msgs[k] as *const Call<Pay>)) });
            self.sending = Some((k, fut));
        }
        let (k, fut) = self.sending.as_mut().unwrap();
        match poll_once(fut.as_mut()) {
            Poll::Ready(Ok(())) => {
                cx.log(|| format!("  send #{k}: complete"));
                let k = *k;
                self.completed.push(k);
                self.sending = None;
            }
            Poll::Ready(Err(e)) => {
                self.send_error = Some(format!("{e:?}"));
                self.sending = None;
            }
            Poll::Pending => cx.log(|| format!("  send #{k}: pending")),
        }
        self.recv_idle = 0;
    }
    fn cancel_send(&mut self, cx: &Ctx) -> bool {
        match self.sending.take() {
            Some((k, fut)) => {
                drop(fut);
                cx.log(|| format!("  send #{k}: future dropped (abandoned)"));
                self.cancelled.push(k);
                self.recv_idle = 0;
                true
            }
            None => false,
        }
    }
    fn cancel_recv(&mut self, cx: &Ctx) -> bool {
        match self.receiving.take() {
            Some(fut) => {
                drop(fut);
                cx.log(|| "  receive: pending future dropped (abandoned), a new receive starts at the next receiver poll".to_string());
                self.recv_idle = 0;
                true
            }
            None => false,
        }
    }
    fn poll_recv(&mut self, cx: &Ctx) {
        if self.recv_error.is_some() {
            return;
        }
        if self.receiving.is_none() {
            let fut: RecvFut = Box::pin(unsafe { (*self.r).receive_call::<Pay>() });
            self.receiving = Some(fut);
        }
        match poll_once(self.receiving.as_mut().unwrap().as_mut()) {
            Poll::Ready(Ok(c)) => {
                let x = &c.method().x;
                cx.log(|| format!("  receive: message `{}`… ({} bytes)", &x[..x.len().min(12)], x.len() + 8));
                self.received.push(x.clone());
                self.receiving = None;
                self.recv_idle = 0;
            }
            Poll::Ready(Err(e)) => {
                cx.log(|| format!("  receive: error {e:?}"));
                self.recv_error = Some(format!("{e:?}"));
                self.receiving = None;
            }
            Poll::Pending => {
                self.recv_idle += 1;
            }
        }
    }
    fn done(&self) -> bool {
        // a receiver that saw a broken frame stops reading: the stream is dead, nothing more to learn
        self.recv_error.is_some() || (!self.sender_active() && self.recv_idle >= 4)
    }
    /// The oracle for one direction.
    fn judge(&self, name: &str) -> Result<(), (String, String)> {
        if let Some(e) = &self.send_error {
            return Err(("sockets:send-failed".into(), format!("{name}: {e}")));
        }
        let sent: Vec<&String> = self.msgs.iter().map(|m| &m.method().x).collect();
        let summary = || {
            format!(
                "{name}: sent sizes {:?}, completed {:?}, abandoned {:?}; received {:?}{}",
                sent.iter().map(|s| s.len() + 8).collect::<Vec<_>>(),
                self.completed,
                self.cancelled,
                self.received.iter().map(|r| format!("{}…({}b)", &r[..r.len().min(8)], r.len() + 8)).collect::<Vec<_>>(),
                self.recv_error.as_ref().map(|e| format!(" then receive error {e}")).unwrap_or_default()
            )
        };
        // every received frame is one of the sent messages, whole, in order, at most once
        let mut pos = 0usize;
        for r in &self.received {
            match sent[pos..].iter().position(|s| *s == r) {
                Some(p) => pos += p + 1,
                None => {
                    let class = if sent.iter().any(|s| *s == r) { "sockets:message-duplicated-or-reordered" } else { "sockets:corrupted-message-delivered" };
                    return Err((class.into(), summary()));
                }
            }
        }
        if self.recv_error.is_some() {
            let class = if self.cancelled.is_empty() { "sockets:receiver-saw-a-broken-frame" } else { "sockets:abandoned-send-corrupts-the-stream" };
            return Err((class.into(), summary()));
        }
        // every message whose send completed arrives
        for k in &self.completed {
            if !self.received.iter().any(|r| r == sent[*k]) {
                let class = if self.cancelled.is_empty() { "sockets:message-lost" } else { "sockets:message-lost-after-an-abandoned-send" };
                return Err((class.into(), summary()));
            }
        }
        Ok(())
    }
}

#[derive(Clone, Debug)]
pub struct Spec {
    pub rt: RtKind,
    pub sizes: Vec<usize>,
    pub max_msgs: usize,
    pub slots: usize,
    pub bidir: bool,
    pub cancels: bool,
    pub small_buffers: bool,
    /// 0 = off; K > 0: one send (free choice which) is abandoned after k sender polls, for every
    /// k in 0..K - cancellation points far into a long send, beyond the scheduled slots
    pub abandon_within: usize,
    /// the scheduled slots may also drop a pending RECEIVE future (a new one is started at the next
    /// receiver poll): C07's guarantee, over the runtime's real transport
    pub recv_cancels: bool,
}

impl Spec {
    pub fn to_json(&self) -> Value {
        json!({"rt": format!("{:?}", self.rt), "sizes": self.sizes, "max_msgs": self.max_msgs, "slots": self.slots, "bidir": self.bidir, "cancels": self.cancels, "small_buffers": self.small_buffers, "abandon_within": self.abandon_within, "recv_cancels": self.recv_cancels})
    }
    pub fn from_json(v: &Value) -> Option<Spec> {
        Some(Spec {
            rt: if v["rt"] == "Tokio" { RtKind::Tokio } else { RtKind::Smol },
            sizes: v["sizes"].as_array()?.iter().map(|x| x.as_u64().unwrap_or(1) as usize).collect(),
            max_msgs: v["max_msgs"].as_u64()? as usize,
            slots: v["slots"].as_u64()? as usize,
            bidir: v["bidir"].as_bool()?,
            cancels: v["cancels"].as_bool()?,
            small_buffers: v["small_buffers"].as_bool()?,
            abandon_within: v["abandon_within"].as_u64().unwrap_or(0) as usize,
            recv_cancels: v["recv_cancels"].as_bool().unwrap_or(false),
        })
    }
}

fn run_with<R: Rt>(spec: &Spec, cx: &Ctx) -> Verdict {
    let rt = R::new();
    let n = 1 + cx.choose(spec.max_msgs, "messages-1");
    let sizes: Vec<usize> = (0..n).map(|_| spec.sizes[cx.choose(spec.sizes.len(), "size")]).collect();
    // (message, number of sender polls after which its pending send is abandoned)
    let abandon: Option<(usize, usize)> = if spec.abandon_within > 0 { Some((cx.choose(n, "abandon:which-message"), cx.choose(spec.abandon_within, "abandon:after-k-sender-polls"))) } else { None };
    let mut polls_of_victim = 0usize;
    let (sa, sb) = small_pair(spec.small_buffers);
    let conn_a: Connection<R::Sock> = Connection::new(rt.wrap(sa));
    let conn_b: Connection<R::Sock> = Connection::new(rt.wrap(sb));
    if conn_a.id() == conn_b.id() {
        return Verdict::fail("sockets:connection-ids-not-distinct", format!("both connections have id {}", conn_a.id()));
    }
    let (mut ra, mut wa) = conn_a.split();
    let (mut rb, mut wb) = conn_b.split();
    cx.log(|| format!("{:?}: A sends {} message(s) of sizes {sizes:?}{}", spec.rt, n, if spec.bidir { " and B sends the same back concurrently" } else { "" }));
    let lane = |w: *mut WriteConnection<<R::Sock as Socket>::WriteHalf>, r: *mut ReadConnection<<R::Sock as Socket>::ReadHalf>, dir: char| Lane::<R::Sock> {
        w,
        r,
        msgs: sizes.iter().enumerate().map(|(i, s)| message(i, *s, dir)).collect(),
        next: 0,
        sending: None,
        receiving: None,
        completed: vec![],
        cancelled: vec![],
        received: vec![],
        recv_idle: 0,
        recv_error: None,
        send_error: None,
    };
    let mut lanes: Vec<Lane<R::Sock>> = vec![lane(&mut wa, &mut rb, 'a')];
    if spec.bidir {
        lanes.push(lane(&mut wb, &mut ra, 'b'));
    }
    if sizes.iter().any(|s| *s > 4096) {
        cx.goal("message-larger-than-the-socket-buffer");
    }
    // actions: 2*l = poll sender of lane l, 2*l+1 = poll receiver of lane l; extra: cancel lane l
    let nl = lanes.len();
    let mut rr = 0usize; // round-robin position of the default schedule
    let mut step = 0usize;
    let mut guard = 0usize;
    while !lanes.iter().all(|l| l.done()) {
        guard += 1;
        if guard > 200_000 {
            return Verdict::fail("sockets:no-progress", format!("{:?}: 200000 steps without finishing (sizes {sizes:?})", spec.rt));
        }
        let default = rr % (2 * nl);
        rr += 1;
        let mut action = default;
        if step < spec.slots {
            // fixed arity, so that the shape of the choice tree does not depend on what the kernel does
            let arity = 1 + 2 * nl + if spec.cancels { nl } else { 0 } + if spec.recv_cancels { nl } else { 0 };
            let v = cx.choose_dev(arity, "step:default|poll-sender|poll-receiver|abandon-send|abandon-receive");
            step += 1;
            if v > 0 {
                action = v - 1;
            }
        }
        if action < 2 * nl {
            let l = action / 2;
            if action % 2 == 0 {
                if let (Some((victim, k)), 0) = (abandon, l) {
                    let sending_victim = matches!(&lanes[0].sending, Some((m, _)) if *m == victim);
                    if sending_victim && polls_of_victim >= k {
                        if lanes[0].cancel_send(cx) {
                            cx.goal("send-abandoned-while-pending");
                        }
                        polls_of_victim = usize::MAX / 2;
                        rt.turn();
                        continue;
                    }
                    if sending_victim || (lanes[0].sending.is_none() && lanes[0].next == victim) {
                        polls_of_victim += 1;
                    }
                }
                if lanes[l].sender_active() {
                    lanes[l].poll_send(cx);
                } else {
                    lanes[l].poll_recv(cx);
                }
            } else {
                lanes[l].poll_recv(cx);
            }
        } else if spec.cancels && action < 3 * nl {
            let l = action - 2 * nl;
            if lanes[l].cancel_send(cx) {
                cx.goal("send-abandoned-while-pending");
            }
        } else {
            let l = action - 2 * nl - if spec.cancels { nl } else { 0 };
            if lanes[l].cancel_recv(cx) {
                cx.goal("receive-abandoned-while-pending");
                if !lanes[l].received.is_empty() || lanes[l].sending.is_some() {
                    cx.goal("receive-abandoned-mid-traffic");
                }
            }
        }
        rt.turn();
    }
    // futures go before the connections they point into
    for l in lanes.iter_mut() {
        l.sending = None;
        l.receiving = None;
    }
    let mut h = H64::new();
    for (i, l) in lanes.iter().enumerate() {
        if let Err((class, detail)) = l.judge(if i == 0 { "A->B" } else { "B->A" }) {
            return Verdict::Fail(xplore::Violation { class, detail: format!("{:?}: {detail}", spec.rt) });
        }
        for r in &l.received {
            h.s(&r[..r.len().min(6)]);
        }
        h.u(l.cancelled.len() as u64);
    }
    if lanes.iter().any(|l| !l.cancelled.is_empty() && l.completed.iter().any(|k| l.cancelled.iter().any(|c| c < k))) {
        cx.goal("message-sent-after-an-abandoned-one");
    }
    Verdict::Pass(h.get())
}

pub struct Sched(pub Spec);
impl Harness for Sched {
    fn run(&self, cx: &Ctx) -> Verdict {
        match self.0.rt {
            RtKind::Tokio => run_with::<TokioRt>(&self.0, cx),
            RtKind::Smol => run_with::<SmolRt>(&self.0, cx),
        }
    }
}

// ------------------------------------------------------------------------------------------------
// listeners: bound vs. inherited descriptor, 1..8 sequential connects, distinct identifiers

pub fn listener_case(rt: RtKind, inherited: bool, clients: usize) -> Result<(), (String, String)> {
    use zlink_core::Listener as _;
    let dir = std::env::temp_dir().join(format!("zlink-verif-{}-{:?}-{inherited}-{clients}-{:?}", std::process::id(), rt, std::thread::current().id()));
    let _ = std::fs::remove_dir_all(&dir);
    std::fs::create_dir_all(&dir).map_err(|e| ("sockets:harness".to_string(), format!("{e}")))?;
    let path = dir.join("s");
    let res = (|| -> Result<(), (String, String)> {
        let fail = |c: &str, d: String| (c.to_string(), format!("{rt:?}, inherited={inherited}, {clients} clients: {d}"));
        let mut ids = Vec::new();
        match rt {
            RtKind::Tokio => {
                let trt = tokio::runtime::Builder::new_current_thread().enable_io().build().unwrap();
                trt.block_on(async {
                    let mut l = if inherited {
                        let std_l = std::os::unix::net::UnixListener::bind(&path).map_err(|e| fail("sockets:harness", e.to_string()))?;
                        zlink_tokio::unix::Listener::try_from(OwnedFd::from(std_l)).map_err(|e| fail("sockets:listener-from-descriptor-failed", format!("{e:?}")))?
                    } else {
                        zlink_tokio::unix::bind(&path).map_err(|e| fail("sockets:bind-failed", format!("{e:?}")))?
                    };
                    for i in 0..clients {
                        let mut c = zlink_tokio::unix::connect(&path).await.map_err(|e| fail("sockets:connect-failed", format!("{e:?}")))?;
                        let mut s = l.accept().await.map_err(|e| fail("sockets:accept-failed", format!("{e:?}")))?;
                        ids.push(c.id());
                        ids.push(s.id());
                        let m = message(i, 300, 'c');
                        c.send_call(&m).await.map_err(|e| fail("sockets:send-failed", format!("{e:?}")))?;
                        let got = s.receive_call::<Pay>().await.map_err(|e| fail("sockets:receiver-saw-a-broken-frame", format!("{e:?}")))?;
                        if got.method().x != m.method().x {
                            return Err(fail("sockets:corrupted-message-delivered", format!("client {i}")));
                        }
                    }
                    Ok(())
                })?;
            }
            RtKind::Smol => {
                async_io::block_on(async {
                    let mut l = if inherited {
                        let std_l = std::os::unix::net::UnixListener::bind(&path).map_err(|e| fail("sockets:harness", e.to_string()))?;
                        zlink_smol::unix::Listener::try_from(OwnedFd::from(std_l)).map_err(|e| fail("sockets:listener-from-descriptor-failed", format!("{e:?}")))?
                    } else {
                        zlink_smol::unix::bind(&path).map_err(|e| fail("sockets:bind-failed", format!("{e:?}")))?
                    };
                    for i in 0..clients {
                        let mut c = zlink_smol::unix::connect(&path).await.map_err(|e| fail("sockets:connect-failed", format!("{e:?}")))?;
                        let mut s = l.accept().await.map_err(|e| fail("sockets:accept-failed", format!("{e:?}")))?;
                        ids.push(c.id());
                        ids.push(s.id());
                        let m = message(i, 300, 'c');
                        c.send_call(&m).await.map_err(|e| fail("sockets:send-failed", format!("{e:?}")))?;
                        let got = s.receive_call::<Pay>().await.map_err(|e| fail("sockets:receiver-saw-a-broken-frame", format!("{e:?}")))?;
                        if got.method().x != m.method().x {
                            return Err(fail("sockets:corrupted-message-delivered", format!("client {i}")));
                        }
                    }
                    Ok(())
                })?;
            }
        }
        let mut sorted = ids.clone();
        sorted.sort();
        sorted.dedup();
        if sorted.len() != ids.len() {
            return Err(fail("sockets:connection-ids-not-distinct", format!("{ids:?}")));
        }
        Ok(())
    })();
    let _ = std::fs::remove_dir_all(&dir);
    res
}

// ------------------------------------------------------------------------------------------------
// listeners, order of events: for every client the driver decides whether the server side polls
// `accept` BEFORE the client connects (the accept has to wait - and must do so without blocking
// its thread, or nothing else on a single-threaded runtime ever runs) or after.  The inherited
// descriptor comes in both modes a parent can leave it in: blocking (the default of a fresh
// socket) and non-blocking.

pub const LISTENER_MODES: [&str; 3] = ["bound", "inherited descriptor in blocking mode", "inherited descriptor in non-blocking mode"];

/// All (runtime, mode, clients, order mask) combinations for up to `max_clients` clients.
pub fn listener_order_cases(max_clients: usize) -> Vec<(RtKind, usize, usize, u32)> {
    let mut v = Vec::new();
    for rt in [RtKind::Tokio, RtKind::Smol] {
        for mode in 0..LISTENER_MODES.len() {
            for clients in 1..=max_clients {
                for mask in 0..(1u32 << clients) {
                    v.push((rt, mode, clients, mask));
                }
            }
        }
    }
    v
}

macro_rules! listener_order_body {
    ($z:ident, $path:expr, $mode:expr, $clients:expr, $mask:expr, $fail:expr, $ids:expr) => {{
        use std::future::Future;
        use zlink_core::Listener as _;
        let mut l = if $mode == 0 {
            $z::unix::bind(&$path).map_err(|e| $fail("sockets:bind-failed", format!("{e:?}")))?
        } else {
            let std_l = std::os::unix::net::UnixListener::bind(&$path).map_err(|e| $fail("sockets:harness", e.to_string()))?;
            std_l.set_nonblocking($mode == 2).map_err(|e| $fail("sockets:harness", e.to_string()))?;
            $z::unix::Listener::try_from(OwnedFd::from(std_l)).map_err(|e| $fail("sockets:listener-from-descriptor-failed", format!("{e:?}")))?
        };
        for i in 0..$clients {
            let accept_first = $mask & (1 << i) != 0;
            let (mut c, mut s) = if accept_first {
                let mut acc = Box::pin(l.accept());
                // one poll with no client around: it has to come back, and with Pending
                let first = std::future::poll_fn(|cx| std::task::Poll::Ready(acc.as_mut().poll(cx).map(|r| r.map(|_| ())))).await;
                if !first.is_pending() {
                    return Err($fail("sockets:accept-completed-without-a-client", format!("client {i}: {first:?}")));
                }
                let c = $z::unix::connect(&$path).await.map_err(|e| $fail("sockets:connect-failed", format!("{e:?}")))?;
                let s = acc.await.map_err(|e| $fail("sockets:accept-failed", format!("{e:?}")))?;
                (c, s)
            } else {
                let c = $z::unix::connect(&$path).await.map_err(|e| $fail("sockets:connect-failed", format!("{e:?}")))?;
                let s = l.accept().await.map_err(|e| $fail("sockets:accept-failed", format!("{e:?}")))?;
                (c, s)
            };
            $ids.push(c.id());
            $ids.push(s.id());
            let m = message(i, 300, 'c');
            c.send_call(&m).await.map_err(|e| $fail("sockets:send-failed", format!("{e:?}")))?;
            let got = s.receive_call::<Pay>().await.map_err(|e| $fail("sockets:receiver-saw-a-broken-frame", format!("{e:?}")))?;
            if got.method().x != m.method().x {
                return Err($fail("sockets:corrupted-message-delivered", format!("client {i}")));
            }
            // and back, on the accepted connection
            let back = message(i + 100, 40, 'r');
            s.send_call(&back).await.map_err(|e| $fail("sockets:send-failed", format!("{e:?}")))?;
            let got = c.receive_call::<Pay>().await.map_err(|e| $fail("sockets:receiver-saw-a-broken-frame", format!("{e:?}")))?;
            if got.method().x != back.method().x {
                return Err($fail("sockets:corrupted-message-delivered", format!("client {i}, reply direction")));
            }
        }
        Ok(())
    }};
}

fn listener_order_inner(rt: RtKind, mode: usize, clients: usize, mask: u32, dir: std::path::PathBuf) -> Result<(), (String, String)> {
    let path = dir.join("s");
    let fail = |c: &str, d: String| (c.to_string(), format!("{rt:?}, listener {}, {clients} client(s), accept-first mask {mask:#b}: {d}", LISTENER_MODES[mode]));
    let mut ids: Vec<usize> = Vec::new();
    match rt {
        RtKind::Tokio => {
            let trt = tokio::runtime::Builder::new_current_thread().enable_io().build().unwrap();
            trt.block_on(async { listener_order_body!(zlink_tokio, path, mode, clients, mask, fail, ids) })?;
        }
        RtKind::Smol => {
            async_io::block_on(async { listener_order_body!(zlink_smol, path, mode, clients, mask, fail, ids) })?;
        }
    }
    let mut sorted = ids.clone();
    sorted.sort();
    sorted.dedup();
    if sorted.len() != ids.len() {
        return Err(fail("sockets:connection-ids-not-distinct", format!("{ids:?}")));
    }
    Ok(())
}

/// Runs on a thread of its own: a listener that blocks its thread in `accept` can only be noticed
/// from outside (the watchdog turns the hang into a verdict; it decides nothing else).
pub fn listener_order_case(rt: RtKind, mode: usize, clients: usize, mask: u32) -> Result<(), (String, String)> {
    let dir = std::env::temp_dir().join(format!("zlink-verif-lo-{}-{:?}-{mode}-{clients}-{mask}", std::process::id(), rt));
    let _ = std::fs::remove_dir_all(&dir);
    std::fs::create_dir_all(&dir).map_err(|e| ("sockets:harness".to_string(), format!("{e}")))?;
    let (tx, rx) = std::sync::mpsc::channel();
    let d2 = dir.clone();
    std::thread::spawn(move || {
        let _ = tx.send(listener_order_inner(rt, mode, clients, mask, d2));
    });
    let res = match rx.recv_timeout(std::time::Duration::from_secs(8)) {
        Ok(r) => r,
        Err(_) => Err(("sockets:accept-blocks-its-thread".to_string(), format!("{rt:?}, listener {}, {clients} client(s), accept-first mask {mask:#b}: no progress within 8 s - an accept polled before the client connected never handed control back", LISTENER_MODES[mode]))),
    };
    let _ = std::fs::remove_dir_all(&dir);
    res
}

// ------------------------------------------------------------------------------------------------
// C03 over the shipped transports: what a raw reader at the other end of a real socket pair sees
// must be, byte for byte, serde_json's compact encoding of every message followed by one NUL -
// whatever the message sizes are relative to the kernel's socket buffers and however slowly the
// peer takes the bytes off.

/// A payload with characters the serializer has to escape or encode in several bytes, `size` bytes
/// of text before escaping.
pub fn odd_message(id: usize, size: usize) -> Call<Pay> {
    const PIECES: [&str; 8] = ["abc", "\u{e9}", "\"", "\\", "\n", "\u{20ac}", "xyz12", "\u{1}"];
    let mut x = format!("m{id}:");
    let mut i = id;
    while x.len() < size {
        x.push_str(PIECES[i % PIECES.len()]);
        i += 1;
    }
    Call::new(Pay { x })
}

pub const RAW_SIZES: [usize; 4] = [300, 9_000, 70_000, 150_000];
/// bytes the peer takes off after every sender poll that came back pending (0: nothing until the
/// sender has been pending three times in a row, then everything)
pub const RAW_DRAINS: [usize; 4] = [0, 4096, 65_536, usize::MAX];

/// The oneway method of a generated proxy that `raw_wire_with` sends its messages with when `how`
/// is 2 (what must reach the wire is then the call the proxy rule describes for it).
#[zlink_core::proxy(interface = "p", crate = "zlink_core")]
pub trait PayProxy {
    #[zlink(oneway)]
    async fn store(&mut self, x: &str) -> zlink_core::Result<()>;
}

#[derive(Debug, Serialize)]
#[serde(tag = "method", content = "parameters")]
enum PayMeth<'a> {
    #[serde(rename = "p.Store")]
    Store { x: &'a str },
}

/// `how`: 0 = every message through send_call, 1 = as a chain of its own, 2 = through the generated
/// proxy method `store`.
fn raw_wire_with<R: Rt>(sizes: &[usize], drain: usize, small: bool, abandon: Option<(usize, usize)>, how: u8) -> Result<u64, (String, String)> {
    use std::io::Read;
    let chains = how == 1;
    let rt = R::new();
    let (sa, mut peer) = small_pair(small);
    let mut conn: Connection<R::Sock> = Connection::new(rt.wrap(sa));
    let cp: *mut Connection<R::Sock> = &mut conn;
    let msgs: Vec<Call<Pay>> = sizes.iter().enumerate().map(|(i, s)| odd_message(i, *s)).collect();
    let mut expect = Vec::new();
    for m in &msgs {
        if how == 2 {
            expect.extend_from_slice(&serde_json::to_vec(&Call::new(PayMeth::Store { x: &m.method().x }).set_oneway(true)).unwrap());
        } else {
            expect.extend_from_slice(&serde_json::to_vec(m).unwrap());
        }
        expect.push(0);
    }
    let mut got: Vec<u8> = Vec::new();
    let mut take = |peer: &mut StdUnixStream, got: &mut Vec<u8>, max: usize| {
        let mut buf = vec![0u8; 65536];
        let mut left = max;
        while left > 0 {
            let want = left.min(buf.len());
            match peer.read(&mut buf[..want]) {
                Ok(0) => break,
                Ok(n) => {
                    got.extend_from_slice(&buf[..n]);
                    left -= n;
                }
                Err(_) => break,
            }
        }
    };
    let describe = |got: &Vec<u8>| {
        let at = got.iter().zip(expect.iter()).position(|(a, b)| a != b).unwrap_or(got.len().min(expect.len()));
        format!("message sizes {sizes:?}{}, peer takes {} bytes per pending poll, {} socket buffers: the peer read {} bytes, serde_json's encodings + NULs are {} bytes, first difference at offset {at}", abandon.map(|(m, k)| format!("{}, the send of message #{m} abandoned at its pending poll #{k} (what it had not written yet goes out with the next send / the final flush)", if chains { ", each sent as a chain of its own" } else if how == 2 { ", each sent with a generated proxy method" } else { "" })).unwrap_or_default(), if drain == usize::MAX { "all".to_string() } else { drain.to_string() }, if small { "smallest" } else { "default" }, got.len(), expect.len())
    };
    for (k, m) in msgs.iter().enumerate() {
        let mp = m as *const Call<Pay>;
        // SAFETY: the connection outlives every future (each is dropped before the next is made)
        let mut fut: SendFut = if chains {
            // every message goes out as a chain of its own (`chain_call(..).send()`)
            Box::pin(async move {
                let chain = unsafe { (*cp).chain_call::<Pay, serde_json::Value, serde_json::Value>(&*mp) }?;
                chain.send().await.map(|_| ())
            })
        } else if how == 2 {
            Box::pin(async move { unsafe { (*cp).store(&(*mp).method().x) }.await })
        } else {
            Box::pin(unsafe { (*cp).send_call(&*mp) })
        };
        let mut pendings = 0usize;
        let mut guard = 0usize;
        loop {
            guard += 1;
            if guard > 1_000_000 {
                return Err(("sockets:no-progress".into(), format!("send #{k}: {}", describe(&got))));
            }
            rt.turn();
            match poll_once(fut.as_mut()) {
                Poll::Ready(Ok(())) => break,
                Poll::Ready(Err(e)) => return Err(("sockets:send-failed".into(), format!("send #{k}: {e:?}; {}", describe(&got)))),
                Poll::Pending => {
                    pendings += 1;
                    if abandon == Some((k, pendings)) {
                        // the caller gives up on this send (a timeout, the losing arm of a select)
                        break;
                    }
                    if drain == 0 {
                        if pendings >= 3 {
                            take(&mut peer, &mut got, usize::MAX);
                        }
                    } else {
                        take(&mut peer, &mut got, drain);
                    }
                }
            }
        }
        drop(fut);
    }
    if abandon.is_some() {
        // whatever is still pending goes out with a final flush
        let mut fut: SendFut = Box::pin(unsafe { (*cp).flush() });
        let mut guard = 0usize;
        loop {
            guard += 1;
            if guard > 1_000_000 {
                return Err(("sockets:no-progress".into(), format!("final flush: {}", describe(&got))));
            }
            rt.turn();
            match poll_once(fut.as_mut()) {
                Poll::Ready(Ok(())) => break,
                Poll::Ready(Err(e)) => return Err(("sockets:send-failed".into(), format!("final flush: {e:?}; {}", describe(&got)))),
                Poll::Pending => take(&mut peer, &mut got, if drain == 0 { usize::MAX } else { drain }),
            }
        }
        drop(fut);
    }
    rt.turn();
    take(&mut peer, &mut got, usize::MAX);
    if got != expect {
        let class = if got.len() > expect.len() { "jsoneq:wire-has-extra-bytes" } else if got.len() < expect.len() { "jsoneq:wire-misses-bytes" } else { "jsoneq:wire-bytes-differ" };
        return Err((class.into(), describe(&got)));
    }
    Ok(got.len() as u64)
}

pub fn raw_wire_case(rt: RtKind, sizes: &[usize], drain: usize, small: bool, abandon: Option<(usize, usize)>, how: u8) -> Result<u64, (String, String)> {
    match rt {
        RtKind::Tokio => raw_wire_with::<TokioRt>(sizes, drain, small, abandon, how),
        RtKind::Smol => raw_wire_with::<SmolRt>(sizes, drain, small, abandon, how),
    }
}

/// Cases with one abandoned send: (runtime, sizes, drain, small buffers, (message, pending poll)).
pub fn raw_wire_abandon_cases(thorough: bool) -> Vec<(RtKind, Vec<usize>, usize, bool, (usize, usize), u8)> {
    let seqs: Vec<Vec<usize>> = if thorough {
        vec![vec![70_000, 300], vec![150_000, 300], vec![150_000, 70_000], vec![300, 150_000, 300], vec![70_000, 70_000, 300], vec![150_000, 300, 9_000]]
    } else {
        vec![vec![70_000, 300], vec![150_000, 300], vec![300, 70_000, 300]]
    };
    let mut v = Vec::new();
    for rt in [RtKind::Tokio, RtKind::Smol] {
        for s in &seqs {
            for d in [0usize, 4096, usize::MAX] {
                for small in [true, false] {
                    for m in 0..s.len() {
                        for k in [1usize, 2, 4] {
                            for how in [0u8, 1, 2] {
                                v.push((rt, s.clone(), d, small, (m, k), how));
                            }
                        }
                    }
                }
            }
        }
    }
    v
}

/// (runtime, sizes, drain, small buffers) for all size sequences of length 1..=max_msgs.
pub fn raw_wire_cases(max_msgs: usize) -> Vec<(RtKind, Vec<usize>, usize, bool)> {
    let mut seqs: Vec<Vec<usize>> = vec![vec![]];
    let mut all: Vec<Vec<usize>> = vec![];
    for _ in 0..max_msgs {
        let mut next = vec![];
        for s in &seqs {
            for z in RAW_SIZES {
                let mut t = s.clone();
                t.push(z);
                next.push(t);
            }
        }
        all.extend(next.iter().cloned());
        seqs = next;
    }
    let mut v = Vec::new();
    for rt in [RtKind::Tokio, RtKind::Smol] {
        for s in &all {
            for d in RAW_DRAINS {
                for small in [true, false] {
                    v.push((rt, s.clone(), d, small));
                }
            }
        }
    }
    v
}

// ------------------------------------------------------------------------------------------------
// a raw peer that writes its frames and then goes away - in an orderly way (shutdown of its sending
// side, close) or with data of ours still unread in its queue (the kernel then reports a reset to us
// once, after the queued data) - before the zlink end has read anything: every frame it wrote must
// still be received, intact and in order, before the end of the stream / the error is reported

pub const GOODBYES: [&str; 3] = ["shuts down its sending side", "closes", "closes with data of ours unread"];
pub const GOODBYE_SIZES: [usize; 4] = [9, 120, 300, 6000];

fn goodbye_with<R: Rt>(sizes: &[usize], goodbye: usize, drop_write_half_first: bool) -> Result<u64, (String, String)> {
    use std::io::Write;
    let rt = R::new();
    let (sa, mut peer) = small_pair(false);
    peer.set_nonblocking(false).ok();
    let conn: Connection<R::Sock> = Connection::new(rt.wrap(sa));
    let (mut r, mut w) = conn.split();
    let what = |d: String| format!("peer writes frames of {sizes:?} bytes and {}{}: {d}", GOODBYES[goodbye], if drop_write_half_first { " (our write half was dropped before)" } else { "" });
    if goodbye == 2 {
        // something of ours the peer will never read
        let m = message(99, 40, 'z');
        let mut fut: SendFut = Box::pin(unsafe { (*(&mut w as *mut WriteConnection<<R::Sock as Socket>::WriteHalf>)).send_call(&*(&m as *const Call<Pay>)) });
        let mut guard = 0;
        loop {
            rt.turn();
            match poll_once(fut.as_mut()) {
                Poll::Ready(Ok(())) => break,
                Poll::Ready(Err(e)) => return Err(("sockets:send-failed".into(), what(format!("{e:?}")))),
                Poll::Pending => {
                    guard += 1;
                    if guard > 10_000 {
                        return Err(("sockets:no-progress".into(), what("a 48-byte send never completed".into())));
                    }
                }
            }
        }
    }
    if drop_write_half_first {
        // dropping one half of a split connection must not disturb the other
        drop(w);
    }
    let msgs: Vec<Call<Pay>> = sizes.iter().enumerate().map(|(i, s)| message(i, *s, 'g')).collect();
    for m in &msgs {
        let mut f = serde_json::to_vec(m).unwrap();
        f.push(0);
        if let Err(e) = peer.write_all(&f) {
            if drop_write_half_first {
                // only our WRITE half is gone: the peer must still be able to send to our read half
                return Err(("sockets:dropping-one-half-closed-the-other".into(), what(format!("the peer's write failed with `{e}` although only the write half of our split connection was dropped"))));
            }
            xplore::bug!("peer write: {e}");
        }
    }
    match goodbye {
        0 => {
            let _ = peer.shutdown(std::net::Shutdown::Write);
        }
        _ => drop(peer),
    }
    // now the zlink end starts to read
    let mut got: Vec<String> = Vec::new();
    let mut end: Option<String> = None;
    for _ in 0..msgs.len() + 1 {
        let mut fut: RecvFut = Box::pin(unsafe { (*(&mut r as *mut ReadConnection<<R::Sock as Socket>::ReadHalf>)).receive_call::<Pay>() });
        let mut guard = 0;
        let res = loop {
            rt.turn();
            match poll_once(fut.as_mut()) {
                Poll::Ready(x) => break Some(x),
                Poll::Pending => {
                    guard += 1;
                    if guard > 20_000 {
                        break None;
                    }
                }
            }
        };
        drop(fut);
        match res {
            Some(Ok(c)) => got.push(c.method().x.clone()),
            Some(Err(e)) => {
                end = Some(format!("{e:?}"));
                break;
            }
            None => {
                end = Some("STALL".into());
                break;
            }
        }
    }
    let want: Vec<String> = msgs.iter().map(|m| m.method().x.clone()).collect();
    if got != want {
        let class = if got.len() < want.len() && want.starts_with(&got) { "sockets:message-lost" } else { "sockets:corrupted-message-delivered" };
        return Err((class.into(), what(format!("received {} of the {} frames ({:?}), then {}", got.len(), want.len(), got.iter().map(|g| g.len() + 8).collect::<Vec<_>>(), end.clone().unwrap_or_else(|| "nothing".into())))));
    }
    match end.as_deref() {
        Some("STALL") => Err(("sockets:no-end-of-stream-after-the-peer-left".into(), what("all frames were received, then the receive never completed".into()))),
        Some(_) => Ok(got.len() as u64),
        None => Err(("sockets:message-fabricated".into(), what("one message more than the peer wrote".into()))),
    }
}

pub fn goodbye_case(rt: RtKind, sizes: &[usize], goodbye: usize, drop_write_half_first: bool) -> Result<u64, (String, String)> {
    match rt {
        RtKind::Tokio => goodbye_with::<TokioRt>(sizes, goodbye, drop_write_half_first),
        RtKind::Smol => goodbye_with::<SmolRt>(sizes, goodbye, drop_write_half_first),
    }
}

/// (runtime, sizes, goodbye, write half dropped first) for every sequence of 1..=max frames.
pub fn goodbye_cases(max: usize) -> Vec<(RtKind, Vec<usize>, usize, bool)> {
    let mut seqs: Vec<Vec<usize>> = vec![vec![]];
    let mut all: Vec<Vec<usize>> = vec![];
    for _ in 0..max {
        let mut next = vec![];
        for s in &seqs {
            for z in GOODBYE_SIZES {
                let mut t = s.clone();
                t.push(z);
                next.push(t);
            }
        }
        all.extend(next.iter().cloned());
        seqs = next;
    }
    let mut v = Vec::new();
    for rt in [RtKind::Tokio, RtKind::Smol] {
        for s in &all {
            for g in 0..GOODBYES.len() {
                for d in [false, true] {
                    if g == 2 && d {
                        continue;
                    }
                    v.push((rt, s.clone(), g, d));
                }
            }
        }
    }
    v
}
