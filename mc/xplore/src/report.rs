//! Evidence files, replay artefacts, known findings, the VIOLATION / KNOWN-FINDING protocol.

use crate::{ClassRec, Stats};
use serde_json::{json, Map, Value};
use std::collections::{BTreeMap, HashSet};
use std::path::PathBuf;
use std::time::Instant;

pub fn verif_root() -> PathBuf {
    PathBuf::from(std::env::var("VERIF_ROOT").unwrap_or_else(|_| "/verif".into()))
}

/// Where evidence and replay files go: the verification root, unless a run against an alternative
/// copy of the repository (tooling for seeded changes, see `vcheck`) redirects them.
pub fn out_root() -> PathBuf {
    std::env::var("VERIF_OUT").map(PathBuf::from).unwrap_or_else(|_| verif_root())
}

/// Directory of the build flavor `flavor` ("main" / "smallbuf") of the current run.
pub fn build_dir(flavor: &str) -> PathBuf {
    verif_root().join(".build").join(format!("{}{flavor}", std::env::var("VERIF_BUILD_PREFIX").unwrap_or_default()))
}

/// For phases that run in a child process (another build flavour or another binary): the merged
/// statistics of the child's phases as one JSON value, each violation with the complete replay
/// record under `replay` (property set to `replay_property`, the one the child binary's own
/// `--replay` understands).
pub fn child_json(phases: &[Stats], replay_property: &str) -> Value {
    let mut viol: Vec<Value> = vec![];
    let mut goals: BTreeMap<String, u64> = BTreeMap::new();
    let mut errors: Vec<String> = vec![];
    let mut caps: Vec<String> = vec![];
    let (mut evals, mut transitions, mut states, mut outcomes) = (0u64, 0u64, 0usize, 0usize);
    for p in phases {
        evals += p.evals;
        transitions += p.transitions;
        states += p.states.len();
        outcomes += p.outcomes.len();
        errors.extend(p.machinery_errors.iter().cloned());
        caps.extend(p.caps.iter().map(|c| format!("{}: {c}", p.phase)));
        for (k, v) in &p.goals {
            *goals.entry(k.clone()).or_insert(0) += v;
        }
        for (c, r) in &p.violations {
            let mut rp = r.replay.clone();
            if let Some(o) = rp.as_object_mut() {
                o.insert("property".into(), json!(replay_property));
                o.insert("class".into(), json!(c));
                o.insert("detail".into(), json!(r.detail));
            }
            viol.push(json!({"class": c, "detail": r.detail, "case": r.replay["case"], "index": r.replay["index"], "count": r.count, "replay": rp, "phase": p.phase}));
        }
    }
    json!({"evals": evals, "transitions": transitions, "states": states, "outcomes": outcomes, "violations": viol, "goals": goals, "errors": errors, "caps": caps,
        "phases": phases.iter().map(|p| json!({"phase": p.phase, "executions": p.evals, "wall_s": p.wall})).collect::<Vec<_>>()})
}

#[derive(Clone, Debug)]
pub struct Known {
    pub property: String,
    pub status: String,
    pub class: String,
    pub what: String,
}

pub fn load_known() -> Vec<Known> {
    let p = verif_root().join("known_findings.json");
    let Ok(txt) = std::fs::read_to_string(&p) else { return vec![] };
    let v: Value = match serde_json::from_str(&txt) {
        Ok(v) => v,
        Err(e) => {
            eprintln!("MACHINERY: cannot parse {}: {e}", p.display());
            std::process::exit(2);
        }
    };
    v["findings"]
        .as_array()
        .map(|a| {
            a.iter()
                .map(|f| Known {
                    property: f["property"].as_str().unwrap_or("").to_string(),
                    status: f["status"].as_str().unwrap_or("").to_string(),
                    class: f["class"].as_str().unwrap_or("").to_string(),
                    what: f["what"].as_str().unwrap_or("").to_string(),
                })
                .collect()
        })
        .unwrap_or_default()
}

pub struct Report {
    pub property: String,
    pub tier: String,
    pub seed: u64,
    pub rule: String,
    pub assumptions: Vec<String>,
    pub required_goals: Vec<String>,
    pub extra: Map<String, Value>,
    pub min_outcomes: usize,
    phases: Vec<Stats>,
    start: Instant,
}

impl Report {
    pub fn new(property: &str, tier: &str) -> Report {
        let seed = std::env::var("VERIF_SEED").ok().and_then(|s| s.parse().ok()).unwrap_or(0);
        Report {
            property: property.to_string(),
            tier: tier.to_string(),
            seed,
            rule: String::new(),
            assumptions: vec![],
            required_goals: vec![],
            extra: Map::new(),
            min_outcomes: 2,
            phases: vec![],
            start: Instant::now(),
        }
    }
    pub fn add(&mut self, st: Stats) {
        eprintln!(
            "[{}] phase {:<28} execs={:<10} transitions={:<11} states={:<9} outcomes={:<8} viol-classes={} {:.1}s{}",
            self.property,
            st.phase,
            st.evals,
            st.transitions,
            st.states.len(),
            st.outcomes.len(),
            st.violations.len(),
            st.wall,
            if st.caps.is_empty() { "" } else { "  CAPPED" }
        );
        self.phases.push(st);
    }
    pub fn require_goal(&mut self, g: &str) {
        self.required_goals.push(g.to_string());
    }
    pub fn goal_count(&self, g: &str) -> u64 {
        self.phases.iter().map(|p| p.goals.get(g).copied().unwrap_or(0)).sum()
    }

    /// Write evidence + replays, print protocol lines, return the process exit code.
    pub fn finish(self) -> i32 {
        let root = out_root();
        let _ = std::fs::create_dir_all(root.join("evidence"));
        let _ = std::fs::create_dir_all(root.join("replays"));
        let known = load_known();

        let mut evals = 0u64;
        let mut transitions = 0u64;
        let mut states: HashSet<(usize, u64)> = HashSet::new();
        let mut outcomes: HashSet<(usize, u64)> = HashSet::new();
        let mut caps: Vec<String> = vec![];
        let mut errors: Vec<String> = vec![];
        let mut goals: BTreeMap<String, u64> = BTreeMap::new();
        let mut samples: Vec<Value> = vec![];
        let mut classes: BTreeMap<String, ClassRec> = BTreeMap::new();
        let mut phase_rows: Vec<Value> = vec![];
        let mut sets_capped = false;
        for (pi, p) in self.phases.iter().enumerate() {
            evals += p.evals;
            transitions += p.transitions;
            states.extend(p.states.iter().map(|s| (pi, *s)));
            outcomes.extend(p.outcomes.iter().map(|s| (pi, *s)));
            caps.extend(p.caps.iter().cloned());
            errors.extend(p.machinery_errors.iter().cloned());
            sets_capped |= p.sets_capped;
            for (k, v) in &p.goals {
                *goals.entry(k.clone()).or_insert(0) += v;
            }
            for s in p.samples.iter().take(2) {
                if samples.len() < 8 {
                    samples.push(s.clone());
                }
            }
            for (k, v) in &p.violations {
                match classes.get_mut(k) {
                    None => {
                        classes.insert(k.clone(), v.clone());
                    }
                    Some(e) => e.count += v.count,
                }
            }
            phase_rows.push(json!({
                "phase": p.phase, "executions": p.evals, "transitions": p.transitions,
                "states": p.states.len(), "distinct_outcomes": p.outcomes.len(),
                "deviation_budget": p.budget, "executions_by_deviations": p.by_devs,
                "max_choice_depth": p.max_depth, "wall_s": (p.wall * 100.0).round() / 100.0,
                "capped": !p.caps.is_empty(),
            }));
        }

        // classify violations
        let mut known_seen: Vec<(String, String, u64)> = vec![];
        let mut new_viol: Vec<(String, String, u64, PathBuf)> = vec![];
        for (class, rec) in &classes {
            let k = known.iter().find(|k| k.property == self.property && k.status == "open" && &k.class == class);
            if let Some(k) = k {
                known_seen.push((class.clone(), k.what.clone(), rec.count));
            } else {
                let h = crate::hash_of(class) & 0xffff_ffff;
                let path = root.join("replays").join(format!("{}-{:08x}.json", self.property, h));
                let mut rp = rec.replay.clone();
                if let Some(o) = rp.as_object_mut() {
                    o.insert("property".into(), json!(self.property));
                    o.insert("class".into(), json!(class));
                    o.insert("detail".into(), json!(rec.detail));
                    o.insert("count_in_run".into(), json!(rec.count));
                    o.insert("tier".into(), json!(self.tier));
                }
                if let Err(e) = std::fs::write(&path, serde_json::to_string_pretty(&rp).unwrap()) {
                    errors.push(format!("cannot write replay {}: {e}", path.display()));
                }
                new_viol.push((class.clone(), rec.detail.clone(), rec.count, path));
            }
        }

        // vacuity checks (driver-side only): required goals and more than one distinct outcome
        let mut vacuous: Vec<String> = vec![];
        let complete = caps.is_empty();
        if errors.is_empty() && complete && classes.is_empty() {
            for g in &self.required_goals {
                if goals.get(g).copied().unwrap_or(0) == 0 {
                    vacuous.push(format!("coverage goal `{g}` never met by the driver"));
                }
            }
            if outcomes.len() < self.min_outcomes && classes.is_empty() {
                vacuous.push(format!("only {} distinct outcome(s) observed", outcomes.len()));
            }
        }

        let exhaustive = complete && errors.is_empty();
        let states_n = states.len().max(1);
        let mut coverage = json!({
            "states": states_n,
            "transitions": transitions.max(1),
            "traces_validated_against_impl": evals,
            "evaluations": evals,
            "distinct_nontrivial": outcomes.len(),
            "rule": self.rule,
            "exhaustive": exhaustive,
            "samples": if samples.is_empty() { vec![json!({"note": "no sample recorded"})] } else { samples },
            "phases": phase_rows,
            "caps_hit": caps,
            "hash_sets_capped": sets_capped,
            "driver_goals": goals,
            "known_findings_seen": known_seen.iter().map(|(c, w, n)| json!({"class": c, "what": w, "executions": n})).collect::<Vec<_>>(),
            "new_violation_classes": new_viol.iter().map(|(c, d, n, p)| json!({"class": c, "detail": d, "executions": n, "replay": p})).collect::<Vec<_>>(),
        });
        for (k, v) in &self.extra {
            coverage[k] = v.clone();
        }
        let ev = json!({
            "property_id": self.property,
            "tier": self.tier,
            "seed": self.seed,
            "level": "model_checking",
            "coverage": coverage,
            "assumptions": self.assumptions,
            "wall_s": (self.start.elapsed().as_secs_f64() * 100.0).round() / 100.0,
            "violations": new_viol.len(),
        });
        let evp = root.join("evidence").join(format!("{}.json", self.property));
        if let Err(e) = std::fs::write(&evp, serde_json::to_string_pretty(&ev).unwrap() + "\n") {
            eprintln!("MACHINERY: cannot write {}: {e}", evp.display());
            return 2;
        }

        for (_, what, n) in &known_seen {
            println!("KNOWN-FINDING: property={} {} [{} executions]", self.property, what, n);
        }
        for (class, detail, n, path) in &new_viol {
            println!("VIOLATION property={} replay={}", self.property, path.display());
            let d: String = detail.chars().take(600).collect();
            println!("  class: {class}\n  executions: {n}\n  detail: {d}");
        }
        for e in &errors {
            eprintln!("MACHINERY: {e}");
        }
        for v in &vacuous {
            eprintln!("MACHINERY: vacuous exploration: {v}");
        }
        for c in ev["coverage"]["caps_hit"].as_array().unwrap() {
            eprintln!("NOTE: {}", c.as_str().unwrap_or(""));
        }
        eprintln!(
            "[{}] {} tier: {} executions, {} transitions, {} states, {} distinct outcomes, exhaustive={}, {:.1}s",
            self.property,
            self.tier,
            evals,
            transitions,
            states_n,
            outcomes.len(),
            exhaustive,
            self.start.elapsed().as_secs_f64()
        );
        if !errors.is_empty() || !vacuous.is_empty() {
            2
        } else if !new_viol.is_empty() {
            1
        } else {
            0
        }
    }
}
