//! xplore — a small stateless model checker.
//!
//! The system under test is closed by a *harness*: a deterministic function of the answers it gets
//! from [`Ctx::choose`] / [`Ctx::deviate`].  The explorer runs the harness once for every
//! resolution of those answers (depth-first, by re-execution from a choice prefix), bounded by the
//! number of *deviations* per execution.  Nothing here samples: either the whole bounded space is
//! enumerated, or a cap is reported and the run is not called exhaustive.
//!
//! Besides the DFS explorer there is [`sweep`], a parallel loop over an explicitly indexed finite
//! space (used where the space is a plain product and needs no re-execution).
//!
//! Exit codes used by the callers: 0 = property held on everything explored, 1 = violation,
//! 2 = machinery error (harness bug, replay divergence, vacuous exploration).

use std::cell::RefCell;
use std::collections::{BTreeMap, HashSet};
use std::panic::{catch_unwind, AssertUnwindSafe};
use std::rc::Rc;
use std::sync::atomic::{AtomicBool, AtomicI64, AtomicU64, AtomicUsize, Ordering};
use std::sync::Mutex;
use std::time::{Duration, Instant};

pub mod report;

/// 64-bit FNV-1a, used for outcome / state hashes (deterministic across runs and threads).
#[derive(Clone, Copy)]
pub struct H64(pub u64);
impl Default for H64 {
    fn default() -> Self {
        H64(0xcbf29ce484222325)
    }
}
impl H64 {
    pub fn new() -> Self {
        Self::default()
    }
    #[inline]
    pub fn bytes(&mut self, b: &[u8]) -> &mut Self {
        for &x in b {
            self.0 ^= x as u64;
            self.0 = self.0.wrapping_mul(0x100000001b3);
        }
        // length separator
        self.0 ^= 0xff;
        self.0 = self.0.wrapping_mul(0x100000001b3);
        self
    }
    #[inline]
    pub fn u(&mut self, v: u64) -> &mut Self {
        self.bytes(&v.to_le_bytes())
    }
    #[inline]
    pub fn s(&mut self, s: &str) -> &mut Self {
        self.bytes(s.as_bytes())
    }
    pub fn get(&self) -> u64 {
        // final avalanche so that truncations are usable too
        let mut z = self.0;
        z ^= z >> 33;
        z = z.wrapping_mul(0xff51afd7ed558ccd);
        z ^= z >> 33;
        z
    }
}
impl std::hash::Hasher for H64 {
    fn finish(&self) -> u64 {
        self.get()
    }
    fn write(&mut self, bytes: &[u8]) {
        self.bytes(bytes);
    }
}
pub fn hash_of<T: std::hash::Hash>(t: &T) -> u64 {
    let mut h = H64::new();
    t.hash(&mut h);
    h.get()
}

/// Marker payload for "the harness itself is wrong" panics (exit code 2, never a verdict).
pub struct HarnessBug(pub String);

#[macro_export]
macro_rules! bug {
    ($($t:tt)*) => { std::panic::panic_any($crate::HarnessBug(format!($($t)*))) };
}

#[derive(Clone, Debug)]
pub struct Violation {
    /// Classification key; known findings match on this string exactly.
    pub class: String,
    pub detail: String,
}

#[derive(Clone, Debug)]
pub enum Verdict {
    /// Property held on this execution; the value is a hash of the observable outcome.
    Pass(u64),
    Fail(Violation),
}

impl Verdict {
    pub fn fail(class: impl Into<String>, detail: impl Into<String>) -> Verdict {
        Verdict::Fail(Violation { class: class.into(), detail: detail.into() })
    }
}

#[derive(Clone, Copy, Debug, PartialEq, Eq)]
pub struct Pt {
    pub n: u32,
    pub v: u32,
    pub dev: bool,
    pub label: &'static str,
}

struct Inner {
    prefix: Vec<Pt>,
    trace: Vec<Pt>,
    devs: u32,
    budget: u32,
    horizon: usize,
    states: Vec<u64>,
    goals: Vec<&'static str>,
    soft: Vec<Violation>,
    log: Option<Vec<String>>,
    /// replay of a bare value vector (from a replay file): labels are not checked, arities are.
    bare: Option<Vec<u32>>,
}

/// Handle given to the harness for one execution.  Cheap to clone (single-threaded `Rc`).
#[derive(Clone)]
pub struct Ctx(Rc<RefCell<Inner>>);

impl Ctx {
    fn new(prefix: Vec<Pt>, budget: u32, horizon: usize, log: bool, bare: Option<Vec<u32>>) -> Ctx {
        Ctx(Rc::new(RefCell::new(Inner {
            prefix,
            trace: Vec::new(),
            devs: 0,
            budget,
            horizon,
            states: Vec::new(),
            goals: Vec::new(),
            soft: Vec::new(),
            log: if log { Some(Vec::new()) } else { None },
            bare,
        })))
    }

    fn point(&self, n: usize, dev: bool, label: &'static str) -> usize {
        assert!(n >= 1, "choice point `{label}` with no alternatives");
        let mut i = self.0.borrow_mut();
        let pos = i.trace.len();
        if pos >= i.horizon {
            drop(i);
            bug!("horizon exceeded at choice point `{label}` (harness does not terminate?)");
        }
        let v = if let Some(b) = &i.bare {
            match b.get(pos) {
                Some(&v) => {
                    if v as usize >= n {
                        let msg = format!("replay divergence at #{pos} `{label}`: recorded {v} but arity is {n}");
                        drop(i);
                        bug!("{msg}");
                    }
                    v
                }
                None => 0,
            }
        } else if pos < i.prefix.len() {
            let p = i.prefix[pos];
            if p.n as usize != n || p.label != label || p.dev != dev {
                let msg = format!(
                    "replay divergence at #{pos}: recorded `{}`/{}{} but now `{label}`/{n}{}",
                    p.label,
                    p.n,
                    if p.dev { " (dev)" } else { "" },
                    if dev { " (dev)" } else { "" }
                );
                drop(i);
                bug!("{msg}");
            }
            p.v
        } else {
            0
        };
        if dev && v != 0 {
            i.devs += 1;
        }
        i.trace.push(Pt { n: n as u32, v, dev, label });
        if let Some(l) = &mut i.log {
            if n > 1 {
                l.push(format!("  ? {label}{} -> {v} of {n}", if dev { " (deviation)" } else { "" }));
            }
        }
        v as usize
    }

    /// Free choice among `n` alternatives: all are explored.
    pub fn choose(&self, n: usize, label: &'static str) -> usize {
        self.point(n, false, label)
    }
    /// Deviation-bounded choice: 0 is the default answer, any other answer costs one deviation.
    pub fn choose_dev(&self, n: usize, label: &'static str) -> usize {
        self.point(n, true, label)
    }
    /// Deviation-bounded boolean; `false` is the default environment answer.
    pub fn deviate(&self, label: &'static str) -> bool {
        self.point(2, true, label) != 0
    }
    pub fn devs_used(&self) -> u32 {
        self.0.borrow().devs
    }
    pub fn devs_left(&self) -> u32 {
        let i = self.0.borrow();
        i.budget.saturating_sub(i.devs)
    }
    /// Record a canonical-state hash reached by this execution.
    pub fn state(&self, h: u64) {
        self.0.borrow_mut().states.push(h);
    }
    /// Record that a driver-side coverage goal was met in this execution.
    pub fn goal(&self, name: &'static str) {
        let mut i = self.0.borrow_mut();
        if !i.goals.contains(&name) {
            i.goals.push(name);
        }
    }
    /// Record a violation without ending the execution (the harness goes on checking, so that a
    /// listed known finding cannot mask a different violation later in the same execution).
    pub fn soft_fail(&self, class: impl Into<String>, detail: impl Into<String>) {
        let v = Violation { class: class.into(), detail: detail.into() };
        let mut i = self.0.borrow_mut();
        if let Some(l) = &mut i.log {
            l.push(format!("  !! violation ({}): {}", v.class, v.detail));
        }
        if !i.soft.iter().any(|x| x.class == v.class) {
            i.soft.push(v);
        }
    }
    pub fn logging(&self) -> bool {
        self.0.borrow().log.is_some()
    }
    /// Append a line to the human-readable trace (only evaluated when a trace is being recorded).
    pub fn log(&self, f: impl FnOnce() -> String) {
        if self.logging() {
            let s = f();
            self.0.borrow_mut().log.as_mut().unwrap().push(s);
        }
    }
}

pub trait Harness: Sync {
    fn run(&self, cx: &Ctx) -> Verdict;
}
impl<F: Fn(&Ctx) -> Verdict + Sync> Harness for F {
    fn run(&self, cx: &Ctx) -> Verdict {
        self(cx)
    }
}

#[derive(Clone, Debug)]
pub struct Config {
    pub budget: u32,
    pub threads: usize,
    pub max_execs: u64,
    pub max_wall: Duration,
    pub horizon: usize,
    pub samples: usize,
    pub set_cap: usize,
    pub per_class: u64,
    /// When the two runs of the determinism self-check differ AND one of them violates the property,
    /// the violation is what gets reported: a change to the code under test may make its behaviour
    /// depend on timing (real kernel, a runtime's helper thread) or on process-wide state that
    /// survives from one execution to the next (a static counter, a global budget); that must not
    /// turn a violation into a machinery error.  Each execution is judged on its own, so the
    /// violation stands; a replay in a fresh process may not reproduce it.  Two runs that differ
    /// without any violation remain a machinery error.  On (the default) since the ninth seeded
    /// round.
    pub violation_beats_nondeterminism: bool,
}
impl Default for Config {
    fn default() -> Self {
        Config {
            budget: 0,
            threads: default_threads(),
            max_execs: u64::MAX,
            max_wall: Duration::from_secs(3600),
            horizon: 100_000,
            samples: 3,
            set_cap: 40_000_000,
            per_class: 50,
            violation_beats_nondeterminism: true,
        }
    }
}
pub fn default_threads() -> usize {
    std::env::var("VERIF_THREADS")
        .ok()
        .and_then(|s| s.parse().ok())
        .unwrap_or_else(|| std::thread::available_parallelism().map(|n| n.get()).unwrap_or(4))
}

#[derive(Clone, Debug)]
pub struct ClassRec {
    pub count: u64,
    pub detail: String,
    /// Minimal replay seen for this class: (phase, choice vector or sweep index, rendered trace).
    pub replay: serde_json::Value,
    pub weight: (u32, usize, Vec<u32>),
}

#[derive(Default, Debug)]
pub struct Stats {
    pub phase: String,
    pub evals: u64,
    pub transitions: u64,
    pub states: HashSet<u64>,
    pub outcomes: HashSet<u64>,
    pub sets_capped: bool,
    pub by_devs: Vec<u64>,
    pub max_depth: usize,
    pub budget: u32,
    pub violations: BTreeMap<String, ClassRec>,
    pub samples: Vec<serde_json::Value>,
    pub caps: Vec<String>,
    pub goals: BTreeMap<String, u64>,
    pub wall: f64,
    pub machinery_errors: Vec<String>,
}

fn install_quiet_panic_hook() {
    use std::sync::Once;
    static ONCE: Once = Once::new();
    ONCE.call_once(|| {
        let default = std::panic::take_hook();
        std::panic::set_hook(Box::new(move |info| {
            if QUIET.with(|q| q.get()) {
                let loc = info.location().map(|l| format!("{}:{}", l.file(), l.line())).unwrap_or_default();
                LAST_PANIC_LOC.with(|l| *l.borrow_mut() = loc);
            } else {
                default(info);
            }
        }));
    });
}
thread_local! {
    static QUIET: std::cell::Cell<bool> = const { std::cell::Cell::new(false) };
    static LAST_PANIC_LOC: RefCell<String> = const { RefCell::new(String::new()) };
}

/// Run `f`, turning a panic into `Err(message)`; `HarnessBug` payloads are re-thrown as
/// `Err` with the `BUG:` prefix so that callers can tell them apart.
pub fn guarded<T>(f: impl FnOnce() -> T) -> Result<T, String> {
    install_quiet_panic_hook();
    let prev = QUIET.with(|q| q.replace(true));
    let r = catch_unwind(AssertUnwindSafe(f));
    QUIET.with(|q| q.set(prev));
    match r {
        Ok(v) => Ok(v),
        Err(p) => {
            let loc = LAST_PANIC_LOC.with(|l| l.borrow().clone());
            if let Some(b) = p.downcast_ref::<HarnessBug>() {
                Err(format!("BUG: {}", b.0))
            } else if let Some(s) = p.downcast_ref::<&str>() {
                Err(format!("{s} @ {loc}"))
            } else if let Some(s) = p.downcast_ref::<String>() {
                Err(format!("{s} @ {loc}"))
            } else {
                Err(format!("panic with non-string payload @ {loc}"))
            }
        }
    }
}

struct ExecResult {
    trace: Vec<Pt>,
    devs: u32,
    states: Vec<u64>,
    goals: Vec<&'static str>,
    soft: Vec<Violation>,
    log: Vec<String>,
    verdict: Result<Verdict, String>,
}

fn exec_once<H: Harness + ?Sized>(h: &H, prefix: Vec<Pt>, cfg: &Config, log: bool, bare: Option<Vec<u32>>) -> ExecResult {
    let cx = Ctx::new(prefix, cfg.budget, cfg.horizon, log, bare);
    let verdict = guarded(|| h.run(&cx));
    let mut i = cx.0.borrow_mut();
    ExecResult {
        trace: std::mem::take(&mut i.trace),
        devs: i.devs,
        states: std::mem::take(&mut i.states),
        goals: std::mem::take(&mut i.goals),
        soft: std::mem::take(&mut i.soft),
        log: i.log.take().unwrap_or_default(),
        verdict,
    }
}

pub fn panic_class(msg: &str) -> String {
    // keep the message (without numbers that vary with the input) + location as the class
    // digits inside the message are replaced by `#` so that one defect is one class; the location
    // (file:line after ` @ `) is kept as it is
    let (m, loc) = match msg.rfind(" @ ") {
        Some(i) => (&msg[..i], &msg[i..]),
        None => (msg, ""),
    };
    let mut short = String::new();
    let mut prev_digit = false;
    for c in m.chars().take(160) {
        if c.is_ascii_digit() {
            if !prev_digit {
                short.push('#');
            }
            prev_digit = true;
        } else {
            short.push(c);
            prev_digit = false;
        }
    }
    format!("panic: {short}{loc}")
}

struct Shared<'a, H: ?Sized> {
    h: &'a H,
    cfg: &'a Config,
    global: Mutex<Vec<Vec<Pt>>>,
    global_len: AtomicUsize,
    pending: AtomicI64,
    execs: AtomicU64,
    stop: AtomicBool,
    start: Instant,
    phase: &'a str,
    harness_cfg: &'a serde_json::Value,
}

#[derive(Default)]
struct Local {
    evals: u64,
    transitions: u64,
    states: HashSet<u64>,
    outcomes: HashSet<u64>,
    capped: bool,
    by_devs: Vec<u64>,
    max_depth: usize,
    violations: BTreeMap<String, ClassRec>,
    goals: BTreeMap<&'static str, u64>,
    errors: Vec<String>,
    /// choice vector of the passing execution with the most choice points seen by this worker
    longest: Vec<u32>,
}

fn values(t: &[Pt]) -> Vec<u32> {
    t.iter().map(|p| p.v).collect()
}

fn record_violation<H: Harness + ?Sized>(sh: &Shared<'_, H>, loc: &mut Local, v: Violation, r: &ExecResult) {
    let weight = (r.devs, r.trace.len(), values(&r.trace));
    let e = loc.violations.entry(v.class.clone());
    use std::collections::btree_map::Entry;
    let better = match &e {
        Entry::Vacant(_) => true,
        Entry::Occupied(o) => weight < o.get().weight,
    };
    let count = match &e {
        Entry::Vacant(_) => 0,
        Entry::Occupied(o) => o.get().count,
    };
    if better {
        let replay = serde_json::json!({
            "kind": "dfs",
            "phase": sh.phase,
            "harness": sh.harness_cfg,
            "budget": sh.cfg.budget,
            "choices": weight.2,
        });
        let rec = ClassRec { count: count + 1, detail: v.detail, replay, weight };
        match e {
            Entry::Vacant(x) => {
                x.insert(rec);
            }
            Entry::Occupied(mut o) => {
                *o.get_mut() = rec;
            }
        }
    } else if let Entry::Occupied(mut o) = e {
        o.get_mut().count += 1;
    }
}

fn worker<H: Harness + ?Sized>(sh: &Shared<'_, H>) -> Local {
    let mut loc = Local::default();
    let mut stack: Vec<Vec<Pt>> = Vec::new();
    let mut idle_spins = 0u32;
    loop {
        if sh.stop.load(Ordering::Relaxed) {
            // drain: items left are accounted as not explored
            break;
        }
        let item = match stack.pop() {
            Some(i) => Some(i),
            None => {
                if sh.global_len.load(Ordering::Acquire) > 0 {
                    let mut g = sh.global.lock().unwrap();
                    let it = g.pop();
                    sh.global_len.store(g.len(), Ordering::Release);
                    it
                } else {
                    None
                }
            }
        };
        let Some(prefix) = item else {
            if sh.pending.load(Ordering::Acquire) == 0 {
                break;
            }
            idle_spins += 1;
            if idle_spins > 50 {
                std::thread::sleep(Duration::from_micros(100));
            } else {
                std::thread::yield_now();
            }
            continue;
        };
        idle_spins = 0;
        let plen = prefix.len();
        let n = sh.execs.fetch_add(1, Ordering::Relaxed);
        if n >= sh.cfg.max_execs || (n % 1024 == 0 && sh.start.elapsed() > sh.cfg.max_wall) {
            sh.stop.store(true, Ordering::Relaxed);
            sh.pending.fetch_sub(1, Ordering::AcqRel);
            break;
        }
        let r = exec_once(sh.h, prefix, sh.cfg, false, None);
        if r.trace.len() < plen {
            let bugmsg = matches!(&r.verdict, Err(m) if m.starts_with("BUG: "));
            // (the code under test may carry state from one execution to the next - a static counter,
            // a process-wide budget: a prefix that ends early this time WITH a violation is reported
            // as that violation, see `violation_beats_nondeterminism`)
            let ended_in_violation = sh.cfg.violation_beats_nondeterminism && (matches!(&r.verdict, Ok(Verdict::Fail(_))) || matches!(&r.verdict, Err(m) if !m.starts_with("BUG: ")) || !r.soft.is_empty());
            if !bugmsg && !ended_in_violation {
                loc.errors.push(format!(
                    "replay divergence: execution ended after {} choice points but the prefix has {plen} ({:?})",
                    r.trace.len(),
                    values(&r.trace)
                ));
                sh.stop.store(true, Ordering::Relaxed);
                sh.pending.fetch_sub(1, Ordering::AcqRel);
                break;
            }
        }
        // determinism self-check on the first executions: same prefix, same observation
        if n < 64 {
            let r2 = exec_once(sh.h, r.trace[..plen.min(r.trace.len())].to_vec(), sh.cfg, false, None);
            let same = r.trace == r2.trace
                && r.states == r2.states
                && match (&r.verdict, &r2.verdict) {
                    (Ok(Verdict::Pass(a)), Ok(Verdict::Pass(b))) => a == b,
                    (Ok(Verdict::Fail(a)), Ok(Verdict::Fail(b))) => a.class == b.class,
                    (Err(a), Err(b)) => a == b,
                    _ => false,
                };
            let violates = |x: &ExecResult| matches!(&x.verdict, Ok(Verdict::Fail(_))) || matches!(&x.verdict, Err(m) if !m.starts_with("BUG: ")) || !x.soft.is_empty();
            if !same && sh.cfg.violation_beats_nondeterminism && (violates(&r) || violates(&r2)) {
                if !violates(&r) {
                    // report what the second run showed
                    for v in &r2.soft {
                        record_violation(sh, &mut loc, v.clone(), &r2);
                    }
                    match &r2.verdict {
                        Ok(Verdict::Fail(v)) => record_violation(sh, &mut loc, v.clone(), &r2),
                        Err(msg) if !msg.starts_with("BUG: ") => record_violation(sh, &mut loc, Violation { class: panic_class(msg), detail: msg.clone() }, &r2),
                        _ => {}
                    }
                }
            } else if !same {
                loc.errors.push(format!("nondeterministic harness: two runs of prefix {:?} differ", values(&r.trace[..plen.min(r.trace.len())])));
                sh.stop.store(true, Ordering::Relaxed);
            }
        }
        loc.evals += 1;
        loc.transitions += (r.trace.len() - plen.min(r.trace.len())) as u64 + if plen > 0 { 1 } else { 0 };
        loc.max_depth = loc.max_depth.max(r.trace.len());
        let d = r.devs as usize;
        if loc.by_devs.len() <= d {
            loc.by_devs.resize(d + 1, 0);
        }
        loc.by_devs[d] += 1;
        for g in &r.goals {
            *loc.goals.entry(g).or_insert(0) += 1;
        }
        if loc.states.len() < sh.cfg.set_cap / sh.cfg.threads.max(1) {
            loc.states.extend(r.states.iter().copied());
        } else if !r.states.is_empty() {
            loc.capped = true;
        }
        for v in &r.soft {
            record_violation(sh, &mut loc, v.clone(), &r);
        }
        match &r.verdict {
            Ok(Verdict::Pass(o)) => {
                if r.trace.len() > loc.longest.len() {
                    loc.longest = values(&r.trace);
                }
                if loc.outcomes.len() < sh.cfg.set_cap / sh.cfg.threads.max(1) {
                    loc.outcomes.insert(*o);
                } else {
                    loc.capped = true;
                }
            }
            Ok(Verdict::Fail(v)) => record_violation(sh, &mut loc, v.clone(), &r),
            Err(msg) if msg.starts_with("BUG: ") => {
                loc.errors.push(format!("{msg} (choices {:?})", values(&r.trace)));
                sh.stop.store(true, Ordering::Relaxed);
            }
            Err(msg) => {
                let v = Violation { class: panic_class(msg), detail: msg.clone() };
                record_violation(sh, &mut loc, v, &r);
            }
        }
        // children: flip every choice point after the prefix
        let mut devs_before = 0u32;
        for (i, p) in r.trace.iter().enumerate() {
            if i >= plen && p.n > 1 {
                let affordable = !p.dev || devs_before < sh.cfg.budget;
                if affordable {
                    // push in reverse so that smaller alternatives are explored first
                    for alt in (1..p.n).rev() {
                        let mut child = r.trace[..=i].to_vec();
                        child[i].v = alt;
                        stack.push(child);
                        sh.pending.fetch_add(1, Ordering::AcqRel);
                    }
                }
            }
            if p.dev && p.v != 0 {
                devs_before += 1;
            }
        }
        // share work when others are starving
        if stack.len() > 1 && sh.global_len.load(Ordering::Relaxed) < sh.cfg.threads * 2 {
            let give = stack.len() / 2;
            let mut g = sh.global.lock().unwrap();
            // oldest entries = biggest subtrees
            g.extend(stack.drain(..give));
            sh.global_len.store(g.len(), Ordering::Release);
        }
        sh.pending.fetch_sub(1, Ordering::AcqRel);
    }
    loc
}

/// Exhaustive deviation-bounded DFS over the harness's choice tree.
pub fn explore<H: Harness + ?Sized>(phase: &str, harness_cfg: serde_json::Value, h: &H, cfg: &Config) -> Stats {
    let start = Instant::now();
    let sh = Shared {
        h,
        cfg,
        global: Mutex::new(vec![Vec::new()]),
        global_len: AtomicUsize::new(1),
        pending: AtomicI64::new(1),
        execs: AtomicU64::new(0),
        stop: AtomicBool::new(false),
        start,
        phase,
        harness_cfg: &harness_cfg,
    };
    let locals: Vec<Local> = std::thread::scope(|s| {
        let hs: Vec<_> = (0..cfg.threads.max(1)).map(|_| s.spawn(|| worker(&sh))).collect();
        hs.into_iter().map(|h| h.join().expect("worker died")).collect()
    });
    let mut st = Stats { phase: phase.to_string(), budget: cfg.budget, ..Default::default() };
    let mut longest: Vec<u32> = Vec::new();
    for l in locals {
        if l.longest.len() > longest.len() || (l.longest.len() == longest.len() && l.longest < longest) {
            longest = l.longest.clone();
        }
        merge_local(&mut st, l);
    }
    let left = sh.pending.load(Ordering::Acquire);
    if sh.stop.load(Ordering::Relaxed) && st.machinery_errors.is_empty() {
        st.caps.push(format!(
            "phase {phase}: stopped by cap after {} executions / {:.1}s with >= {} work items unexplored",
            st.evals,
            start.elapsed().as_secs_f64(),
            left.max(0)
        ));
    }
    // sample executions, fully written out: the all-default one, and the first few children
    if st.machinery_errors.is_empty() {
        let mut pre: Vec<Vec<u32>> = vec![vec![]];
        if !longest.is_empty() {
            pre.insert(0, longest);
        }
        let r0 = exec_once(h, vec![], cfg, true, Some(vec![]));
        let mut devs_before = 0;
        for (i, p) in r0.trace.iter().enumerate() {
            if p.n > 1 && (!p.dev || devs_before < cfg.budget) && pre.len() < cfg.samples {
                let mut v = values(&r0.trace[..=i]);
                v[i] = p.n - 1;
                pre.push(v);
            }
            if p.dev && p.v != 0 {
                devs_before += 1;
            }
        }
        for v in pre.into_iter().take(cfg.samples) {
            let r = exec_once(h, vec![], cfg, true, Some(v.clone()));
            st.samples.push(serde_json::json!({
                "phase": phase,
                "choices": values(&r.trace),
                "trace": r.log,
                "verdict": match &r.verdict { Ok(Verdict::Pass(_)) => "pass".to_string(), Ok(Verdict::Fail(v)) => format!("violation: {}", v.class), Err(e) => format!("panic: {e}") },
            }));
        }
    }
    // attach rendered traces to the violation replays
    for rec in st.violations.values_mut() {
        let r = exec_once(h, vec![], cfg, true, Some(rec.weight.2.clone()));
        if let Some(o) = rec.replay.as_object_mut() {
            o.insert("trace".into(), serde_json::json!(r.log));
        }
    }
    st.wall = start.elapsed().as_secs_f64();
    st
}

fn merge_local(st: &mut Stats, l: Local) {
    st.evals += l.evals;
    st.transitions += l.transitions;
    st.states.extend(l.states);
    st.outcomes.extend(l.outcomes);
    st.sets_capped |= l.capped;
    st.max_depth = st.max_depth.max(l.max_depth);
    if st.by_devs.len() < l.by_devs.len() {
        st.by_devs.resize(l.by_devs.len(), 0);
    }
    for (i, c) in l.by_devs.iter().enumerate() {
        st.by_devs[i] += c;
    }
    for (k, v) in l.goals {
        *st.goals.entry(k.to_string()).or_insert(0) += v;
    }
    for (k, v) in l.violations {
        match st.violations.get_mut(&k) {
            None => {
                st.violations.insert(k, v);
            }
            Some(e) => {
                let c = e.count + v.count;
                if v.weight < e.weight {
                    *e = v;
                }
                e.count = c;
            }
        }
    }
    st.machinery_errors.extend(l.errors);
}

/// Replay one execution from a bare choice vector, with the trace rendered.
pub fn replay<H: Harness + ?Sized>(h: &H, budget: u32, choices: &[u32]) -> (Vec<String>, Result<Verdict, String>) {
    let cfg = Config { budget, ..Default::default() };
    let r = exec_once(h, vec![], &cfg, true, Some(choices.to_vec()));
    let verdict = match (r.verdict, r.soft.into_iter().next()) {
        (Ok(Verdict::Pass(_)), Some(v)) => Ok(Verdict::Fail(v)),
        (v, _) => v,
    };
    (r.log, verdict)
}

// ------------------------------------------------------------------------------------------------
// sweep: parallel loop over an indexed finite space

/// Per-item sink handed to sweep bodies.
pub struct Sink<'a> {
    loc: &'a mut SweepLocal,
    phase: &'a str,
    idx: u64,
    set_cap: usize,
}

#[derive(Default)]
pub struct SweepLocal {
    evals: u64,
    transitions: u64,
    states: HashSet<u64>,
    outcomes: HashSet<u64>,
    capped: bool,
    violations: BTreeMap<String, ClassRec>,
    goals: BTreeMap<&'static str, u64>,
    errors: Vec<String>,
    samples: Vec<(u64, serde_json::Value)>,
}

impl Sink<'_> {
    /// One case evaluated and found conforming; `outcome` hashes what was observed.
    #[inline]
    pub fn pass(&mut self, outcome: u64) {
        self.loc.evals += 1;
        if self.loc.outcomes.len() < self.set_cap {
            self.loc.outcomes.insert(outcome);
        } else {
            self.loc.capped = true;
        }
    }
    /// Count `n` further evaluations whose outcome is not hashed individually.
    #[inline]
    pub fn count(&mut self, n: u64) {
        self.loc.evals += n;
    }
    #[inline]
    pub fn steps(&mut self, n: u64) {
        self.loc.transitions += n;
    }
    #[inline]
    pub fn state(&mut self, h: u64) {
        if self.loc.states.len() < self.set_cap {
            self.loc.states.insert(h);
        } else {
            self.loc.capped = true;
        }
    }
    pub fn goal(&mut self, g: &'static str) {
        *self.loc.goals.entry(g).or_insert(0) += 1;
    }
    /// One case evaluated and found violating. `case` must be enough to re-run exactly this case.
    pub fn fail(&mut self, class: impl Into<String>, detail: impl Into<String>, case: serde_json::Value) {
        self.loc.evals += 1;
        let class = class.into();
        let detail = detail.into();
        let casestr = case.to_string();
        let weight = (0u32, casestr.len(), vec![self.idx as u32]);
        let replay = serde_json::json!({"kind": "sweep", "phase": self.phase, "index": self.idx, "case": case, "detail": detail});
        match self.loc.violations.get_mut(&class) {
            None => {
                self.loc.violations.insert(class, ClassRec { count: 1, detail, replay, weight });
            }
            Some(e) => {
                e.count += 1;
                if weight < e.weight {
                    e.detail = detail;
                    e.replay = replay;
                    e.weight = weight;
                }
            }
        }
    }
    pub fn sample(&mut self, v: impl FnOnce() -> serde_json::Value) {
        if self.loc.samples.len() < 4 {
            let v = v();
            self.loc.samples.push((self.idx, v));
        }
    }
    pub fn wants_sample(&self) -> bool {
        self.loc.samples.len() < 4
    }
}

/// Run `body(i, sink)` for every `i in 0..n`, in parallel; panics in `body` are violations of class
/// `panic: …` (or machinery errors if raised with `bug!`).
pub fn sweep<F>(phase: &str, n: u64, cfg: &Config, body: F) -> Stats
where
    F: Fn(u64, &mut Sink<'_>) + Sync,
{
    sweep_range(phase, 0, n, cfg, body)
}

/// Re-run exactly one case of a sweep (replay of a recorded counterexample).
pub fn sweep_one<F>(phase: &str, idx: u64, cfg: &Config, body: F) -> Stats
where
    F: Fn(u64, &mut Sink<'_>) + Sync,
{
    let cfg = Config { threads: 1, ..cfg.clone() };
    sweep_range(phase, idx, idx + 1, &cfg, body)
}

pub fn sweep_range<F>(phase: &str, first: u64, n: u64, cfg: &Config, body: F) -> Stats
where
    F: Fn(u64, &mut Sink<'_>) + Sync,
{
    let start = Instant::now();
    let next = AtomicU64::new(first);
    let stop = AtomicBool::new(false);
    let threads = cfg.threads.max(1);
    let chunk = (((n - first) / (threads as u64 * 64)).max(1)).min(4096);
    let locals: Vec<SweepLocal> = std::thread::scope(|s| {
        let hs: Vec<_> = (0..threads)
            .map(|_| {
                s.spawn(|| {
                    let mut loc = SweepLocal::default();
                    loop {
                        if stop.load(Ordering::Relaxed) {
                            break;
                        }
                        let lo = next.fetch_add(chunk, Ordering::Relaxed);
                        if lo >= n {
                            break;
                        }
                        if start.elapsed() > cfg.max_wall {
                            stop.store(true, Ordering::Relaxed);
                            break;
                        }
                        for i in lo..(lo + chunk).min(n) {
                            let r = {
                                let mut sink = Sink { loc: &mut loc, phase, idx: i, set_cap: cfg.set_cap / threads };
                                guarded(|| body(i, &mut sink))
                            };
                            if let Err(msg) = r {
                                if msg.starts_with("BUG: ") {
                                    loc.errors.push(format!("{msg} (sweep index {i})"));
                                    stop.store(true, Ordering::Relaxed);
                                    break;
                                } else {
                                    let mut sink = Sink { loc: &mut loc, phase, idx: i, set_cap: cfg.set_cap / threads };
                                    sink.fail(panic_class(&msg), msg.clone(), serde_json::json!({"index": i}));
                                }
                            }
                        }
                    }
                    loc
                })
            })
            .collect();
        hs.into_iter().map(|h| h.join().expect("sweep worker died")).collect()
    });
    let mut st = Stats { phase: phase.to_string(), ..Default::default() };
    let mut samples = Vec::new();
    for l in locals {
        st.evals += l.evals;
        st.transitions += l.transitions;
        st.states.extend(l.states);
        st.outcomes.extend(l.outcomes);
        st.sets_capped |= l.capped;
        for (k, v) in l.goals {
            *st.goals.entry(k.to_string()).or_insert(0) += v;
        }
        for (k, v) in l.violations {
            match st.violations.get_mut(&k) {
                None => {
                    st.violations.insert(k, v);
                }
                Some(e) => {
                    let c = e.count + v.count;
                    if v.weight < e.weight {
                        *e = v;
                    }
                    e.count = c;
                }
            }
        }
        st.machinery_errors.extend(l.errors);
        samples.extend(l.samples);
    }
    samples.sort_by_key(|s| s.0);
    st.samples = samples.into_iter().take(cfg.samples.max(1)).map(|(i, v)| serde_json::json!({"phase": phase, "index": i, "case": v})).collect();
    if stop.load(Ordering::Relaxed) && st.machinery_errors.is_empty() {
        st.caps.push(format!("phase {phase}: wall-clock cap hit before the index range 0..{n} was finished"));
    }
    if st.transitions == 0 {
        st.transitions = st.evals;
    }
    st.wall = start.elapsed().as_secs_f64();
    st
}
