//! simnet — a scripted transport, listener and single-task executor for zlink, with every source of
//! environmental nondeterminism (what a read returns, whether a poll is pending, when things
//! arrive, which write fails) owned by the `xplore` explorer.

use std::cell::RefCell;
use std::collections::VecDeque;
use std::future::Future;
use std::pin::Pin;
use std::rc::Rc;
use std::sync::atomic::{AtomicBool, Ordering};
use std::sync::Arc;
use std::task::{Context, Poll, Wake, Waker};

use xplore::Ctx;
use zlink_core::connection::socket::{ReadHalf, Socket, WriteHalf};
use zlink_core::Connection;

pub mod idlref;
pub mod svc;

/// How a `read` decides the number of bytes it returns.
#[derive(Clone, Copy, Debug, PartialEq, Eq)]
pub enum ReadPolicy {
    /// Everything that has arrived, limited by the destination buffer (real stream-socket
    /// behaviour).  No choice point.
    Natural,
    /// Free choice of every size `1..=max`: enumerates every partition of the byte stream.
    PartitionFree,
    /// `max` by default; any smaller size (allowed by the cut filter) costs one deviation.
    PartitionDev,
}

#[derive(Clone, Copy, Debug, PartialEq, Eq)]
pub enum PendPolicy {
    /// Pending only when nothing has arrived.
    Never,
    /// Free choice at every read poll between delivering and returning `Pending` once (the data
    /// "arrives" right after: the waker is woken immediately).
    ChoiceFree,
    /// Same, but a `Pending` costs one deviation.
    ChoiceDev,
}

#[derive(Clone, Copy, Debug)]
pub struct ReadLog {
    pub ptr: usize,
    pub cap: usize,
    pub n: usize,
}

pub struct WireState {
    pub id: usize,
    pub cx: Option<Ctx>,
    // inbound (towards zlink)
    pub inbound: VecDeque<u8>,
    pub consumed: usize,
    pub eof: bool,
    pub read_err: bool,
    pub read_policy: ReadPolicy,
    pub pend_policy: PendPolicy,
    pub just_pended: bool,
    /// candidate filter for `PartitionDev`: absolute stream offset after the read -> allowed?
    pub cut_filter: Option<fn(usize) -> bool>,
    /// alternative candidate filter for `PartitionDev`: the set of absolute stream offsets at which
    /// a read may end early
    pub cut_set: Option<std::collections::BTreeSet<usize>>,
    pub read_waker: Option<Waker>,
    pub reads: Vec<ReadLog>,
    pub read_polls: usize,
    pub eof_reads: usize,
    pub log_reads: bool,
    // outbound (from zlink)
    pub writes: Vec<Vec<u8>>,
    /// the k-th write (0-based) and all later ones fail
    pub write_fail_from: Option<usize>,
    pub write_attempts: usize,
    pub write_pend_dev: bool,
    pub write_just_pended: bool,
    pub dropped_halves: u8,
}

#[derive(Clone)]
pub struct Wire(pub Rc<RefCell<WireState>>);

impl std::fmt::Debug for Wire {
    fn fmt(&self, f: &mut std::fmt::Formatter<'_>) -> std::fmt::Result {
        write!(f, "Wire#{}", self.0.borrow().id)
    }
}

impl Wire {
    pub fn new(id: usize, cx: Option<Ctx>) -> Wire {
        Wire(Rc::new(RefCell::new(WireState {
            id,
            cx,
            inbound: VecDeque::new(),
            consumed: 0,
            eof: false,
            read_err: false,
            read_policy: ReadPolicy::Natural,
            pend_policy: PendPolicy::Never,
            just_pended: false,
            cut_filter: None,
            cut_set: None,
            read_waker: None,
            reads: Vec::new(),
            read_polls: 0,
            eof_reads: 0,
            log_reads: false,
            writes: Vec::new(),
            write_fail_from: None,
            write_attempts: 0,
            write_pend_dev: false,
            write_just_pended: false,
            dropped_halves: 0,
        })))
    }
    /// A wire whose whole inbound stream is present from the start, followed by EOF.
    pub fn stream(cx: &Ctx, bytes: &[u8], rp: ReadPolicy, pp: PendPolicy) -> Wire {
        let w = Wire::new(0, Some(cx.clone()));
        {
            let mut s = w.0.borrow_mut();
            s.inbound.extend(bytes.iter().copied());
            s.eof = true;
            s.read_policy = rp;
            s.pend_policy = pp;
        }
        w
    }
    pub fn socket(&self) -> ScriptSocket {
        ScriptSocket { wire: self.clone() }
    }
    pub fn connection(&self) -> Connection<ScriptSocket> {
        Connection::new(self.socket())
    }
    /// Environment event: bytes arrive.
    pub fn arrive(&self, bytes: &[u8]) {
        let w = {
            let mut s = self.0.borrow_mut();
            s.inbound.extend(bytes.iter().copied());
            s.read_waker.take()
        };
        if let Some(w) = w {
            w.wake();
        }
    }
    pub fn close(&self) {
        let w = {
            let mut s = self.0.borrow_mut();
            s.eof = true;
            s.read_waker.take()
        };
        if let Some(w) = w {
            w.wake();
        }
    }
    pub fn fail_reads(&self) {
        let w = {
            let mut s = self.0.borrow_mut();
            s.read_err = true;
            s.read_waker.take()
        };
        if let Some(w) = w {
            w.wake();
        }
    }
    pub fn written(&self) -> Vec<u8> {
        self.0.borrow().writes.concat()
    }
    pub fn write_count(&self) -> usize {
        self.0.borrow().writes.len()
    }
    pub fn dropped(&self) -> bool {
        self.0.borrow().dropped_halves >= 2
    }

    fn poll_read(&self, tcx: &mut Context<'_>, buf: &mut [u8]) -> Poll<zlink_core::Result<usize>> {
        let mut s = self.0.borrow_mut();
        s.read_polls += 1;
        if buf.is_empty() {
            // A zero-length destination can only be produced by a cursor slip in the caller.
            return Poll::Ready(Ok(0));
        }
        if s.read_err && s.inbound.is_empty() {
            return Poll::Ready(Err(zlink_core::Error::Io(std::io::Error::new(
                std::io::ErrorKind::ConnectionReset,
                "scripted read error",
            ))));
        }
        if s.inbound.is_empty() {
            if s.eof {
                s.eof_reads += 1;
                return Poll::Ready(Ok(0));
            }
            s.read_waker = Some(tcx.waker().clone());
            return Poll::Pending;
        }
        // spurious / "not yet arrived" pending
        if s.pend_policy != PendPolicy::Never {
            if s.just_pended {
                s.just_pended = false;
            } else {
                let cx = s.cx.clone().expect("wire without explorer context");
                drop(s);
                let pend = match self.0.borrow().pend_policy {
                    PendPolicy::ChoiceFree => cx.choose(2, "read:ready|pending") == 1,
                    PendPolicy::ChoiceDev => cx.deviate("read:pending"),
                    PendPolicy::Never => false,
                };
                s = self.0.borrow_mut();
                if pend {
                    s.just_pended = true;
                    tcx.waker().wake_by_ref();
                    return Poll::Pending;
                }
            }
        }
        let max = s.inbound.len().min(buf.len());
        let n = match s.read_policy {
            ReadPolicy::Natural => max,
            ReadPolicy::PartitionFree => {
                let cx = s.cx.clone().expect("wire without explorer context");
                drop(s);
                let v = cx.choose(max, "read:size(max-v)");
                s = self.0.borrow_mut();
                max - v
            }
            ReadPolicy::PartitionDev => {
                let cx = s.cx.clone().expect("wire without explorer context");
                let base = s.consumed;
                let filt = s.cut_filter;
                let cands: Vec<usize> = match &s.cut_set {
                    Some(set) => (1..max).rev().filter(|k| set.contains(&(base + k))).collect(),
                    None => (1..max).rev().filter(|k| filt.map_or(true, |f| f(base + k))).collect(),
                };
                drop(s);
                let v = cx.choose_dev(cands.len() + 1, "read:short");
                let n = if v == 0 { max } else { cands[v - 1] };
                s = self.0.borrow_mut();
                n
            }
        };
        for b in buf.iter_mut().take(n) {
            *b = s.inbound.pop_front().unwrap();
        }
        s.consumed += n;
        if s.log_reads {
            s.reads.push(ReadLog { ptr: buf.as_ptr() as usize, cap: buf.len(), n });
        }
        Poll::Ready(Ok(n))
    }

    fn poll_write(&self, tcx: &mut Context<'_>, buf: &[u8]) -> Poll<zlink_core::Result<()>> {
        let mut s = self.0.borrow_mut();
        if s.write_pend_dev {
            if s.write_just_pended {
                s.write_just_pended = false;
            } else if let Some(cx) = s.cx.clone() {
                drop(s);
                let p = cx.deviate("write:pending");
                s = self.0.borrow_mut();
                if p {
                    s.write_just_pended = true;
                    tcx.waker().wake_by_ref();
                    return Poll::Pending;
                }
            }
        }
        let k = s.write_attempts;
        s.write_attempts += 1;
        if let Some(f) = s.write_fail_from {
            if k >= f {
                return Poll::Ready(Err(zlink_core::Error::Io(std::io::Error::new(
                    std::io::ErrorKind::BrokenPipe,
                    "scripted write error",
                ))));
            }
        }
        s.writes.push(buf.to_vec());
        if s.writes.len() > 20_000 {
            // no harness sends more than a few dozen messages per connection: the code under test
            // is writing in a loop that does not depend on input any more
            panic!("livelock: more than 20000 writes on one connection");
        }
        Poll::Ready(Ok(()))
    }
}

#[derive(Debug)]
pub struct ScriptSocket {
    wire: Wire,
}
#[derive(Debug)]
pub struct ScriptRead {
    wire: Wire,
}
#[derive(Debug)]
pub struct ScriptWrite {
    wire: Wire,
}
impl Drop for ScriptRead {
    fn drop(&mut self) {
        self.wire.0.borrow_mut().dropped_halves += 1;
    }
}
impl Drop for ScriptWrite {
    fn drop(&mut self) {
        self.wire.0.borrow_mut().dropped_halves += 1;
    }
}

impl Socket for ScriptSocket {
    type ReadHalf = ScriptRead;
    type WriteHalf = ScriptWrite;
    fn split(self) -> (ScriptRead, ScriptWrite) {
        (ScriptRead { wire: self.wire.clone() }, ScriptWrite { wire: self.wire })
    }
}
impl ReadHalf for ScriptRead {
    async fn read(&mut self, buf: &mut [u8]) -> zlink_core::Result<usize> {
        let wire = self.wire.clone();
        std::future::poll_fn(move |cx| wire.poll_read(cx, buf)).await
    }
}
impl WriteHalf for ScriptWrite {
    async fn write(&mut self, buf: &[u8]) -> zlink_core::Result<()> {
        let wire = self.wire.clone();
        std::future::poll_fn(move |cx| wire.poll_write(cx, buf)).await
    }
}

// ------------------------------------------------------------------------------------------------
// listener

pub struct ListenerState {
    pub queue: VecDeque<Wire>,
    pub waker: Option<Waker>,
    pub accepted: Vec<(usize, usize)>, // (wire id, connection id)
    pub fail_next: bool,
}
#[derive(Clone)]
pub struct ScriptListener(pub Rc<RefCell<ListenerState>>);
impl std::fmt::Debug for ScriptListener {
    fn fmt(&self, f: &mut std::fmt::Formatter<'_>) -> std::fmt::Result {
        write!(f, "ScriptListener")
    }
}
impl ScriptListener {
    pub fn new() -> Self {
        ScriptListener(Rc::new(RefCell::new(ListenerState { queue: VecDeque::new(), waker: None, accepted: vec![], fail_next: false })))
    }
    /// Environment event: a client connects.
    pub fn connect(&self, w: Wire) {
        let wk = {
            let mut s = self.0.borrow_mut();
            s.queue.push_back(w);
            s.waker.take()
        };
        if let Some(w) = wk {
            w.wake();
        }
    }
}
impl Default for ScriptListener {
    fn default() -> Self {
        Self::new()
    }
}
impl zlink_core::Listener for ScriptListener {
    type Socket = ScriptSocket;
    async fn accept(&mut self) -> zlink_core::Result<Connection<ScriptSocket>> {
        let st = self.0.clone();
        std::future::poll_fn(move |cx| {
            let mut s = st.borrow_mut();
            if let Some(w) = s.queue.pop_front() {
                let conn = w.connection();
                let wid = w.0.borrow().id;
                s.accepted.push((wid, conn.id()));
                Poll::Ready(Ok(conn))
            } else {
                s.waker = Some(cx.waker().clone());
                Poll::Pending
            }
        })
        .await
    }
}

// ------------------------------------------------------------------------------------------------
// executor pieces

pub struct Flag(pub AtomicBool);
impl Wake for Flag {
    fn wake(self: Arc<Self>) {
        self.0.store(true, Ordering::SeqCst);
    }
    fn wake_by_ref(self: &Arc<Self>) {
        self.0.store(true, Ordering::SeqCst);
    }
}
pub struct Task {
    pub flag: Arc<Flag>,
    pub waker: Waker,
    pub polls: usize,
}
impl Task {
    pub fn new() -> Task {
        let flag = Arc::new(Flag(AtomicBool::new(true)));
        let waker = Waker::from(flag.clone());
        Task { flag, waker, polls: 0 }
    }
    pub fn woken(&self) -> bool {
        self.flag.0.load(Ordering::SeqCst)
    }
    /// Poll once, clearing the wake flag first.
    pub fn poll<F: Future + ?Sized>(&mut self, fut: Pin<&mut F>) -> Poll<F::Output> {
        self.flag.0.store(false, Ordering::SeqCst);
        self.polls += 1;
        let mut cx = Context::from_waker(&self.waker);
        fut.poll(&mut cx)
    }
    /// Run one poll-shaped closure with this task's waker, clearing the wake flag first.
    pub fn poll_with<T>(&mut self, f: impl FnOnce(&mut Context<'_>) -> Poll<T>) -> Poll<T> {
        self.flag.0.store(false, Ordering::SeqCst);
        self.polls += 1;
        let mut cx = Context::from_waker(&self.waker);
        f(&mut cx)
    }
    /// Poll while woken, until pending-and-quiet or ready. `limit` guards against livelock.
    pub fn run_until_stalled<F: Future + ?Sized>(&mut self, mut fut: Pin<&mut F>, limit: usize) -> Poll<F::Output> {
        let mut n = 0;
        loop {
            match self.poll(fut.as_mut()) {
                Poll::Ready(v) => return Poll::Ready(v),
                Poll::Pending => {
                    if !self.woken() {
                        return Poll::Pending;
                    }
                    n += 1;
                    if n > limit {
                        xplore::bug!("future woke itself more than {limit} times without completing (livelock in harness or implementation)");
                    }
                }
            }
        }
    }
}
impl Default for Task {
    fn default() -> Self {
        Self::new()
    }
}

/// Drive a future that must complete without any further environment event.
pub fn complete<F: Future>(fut: F) -> F::Output {
    let mut t = Task::new();
    let mut fut = std::pin::pin!(fut);
    match t.run_until_stalled(fut.as_mut(), 10_000) {
        Poll::Ready(v) => v,
        Poll::Pending => xplore::bug!("future stalled: it waits for an event the harness never delivers"),
    }
}

/// Like [`complete`], but a stall is an answer (`None`), not a harness bug.
pub fn complete_or_stall<F: Future>(fut: F) -> Option<F::Output> {
    let mut t = Task::new();
    let mut fut = std::pin::pin!(fut);
    match t.run_until_stalled(fut.as_mut(), 10_000) {
        Poll::Ready(v) => Some(v),
        Poll::Pending => None,
    }
}

pub fn show(bytes: &[u8]) -> String {
    let mut s = String::new();
    for &b in bytes {
        match b {
            0 => s.push_str("\\0"),
            b'\n' => s.push_str("\\n"),
            b'\t' => s.push_str("\\t"),
            b'\r' => s.push_str("\\r"),
            0x20..=0x7e => s.push(b as char),
            _ => s.push_str(&format!("\\x{b:02x}")),
        }
    }
    if s.len() > 400 {
        let head: String = s.chars().take(180).collect();
        let tail: String = s.chars().rev().take(120).collect::<Vec<_>>().into_iter().rev().collect();
        format!("{head}…[{} bytes]…{tail}", bytes.len())
    } else {
        s
    }
}
