//! Reference model of the Varlink interface definition language: an AST, a renderer with selectable
//! layout, a three-valued recogniser written from the grammar, and conversions from zlink's types.
//!
//! Grammar (varlink.org):
//!   interface_name = [A-Za-z]([-]*[A-Za-z0-9])*(\.[A-Za-z0-9]([-]*[A-Za-z0-9])*)+
//!   name           = [A-Z][A-Za-z0-9]*
//!   field_name     = [A-Za-z](_?[A-Za-z0-9])*
//!   type           = "?"? ( "[]" type | "[string]" type | bool|int|float|string|object | name | struct | enum )
//!   struct         = "(" ( field_name ":" type ( "," field_name ":" type )* )? ")"
//!   enum           = "(" field_name ( "," field_name )* ")"
//!   member         = "type" name (struct|enum) | "method" name struct "->" struct | "error" name struct
//! with `_` (whitespace, `#` comments to end of line) allowed between tokens.

use zlink_core::idl;

#[derive(Clone, Debug, PartialEq, Eq)]
pub enum RType {
    Bool,
    Int,
    Float,
    String,
    Object,
    Custom(String),
    Optional(Box<RType>),
    Array(Box<RType>),
    Map(Box<RType>),
    Struct(Vec<RField>),
    Enum(Vec<RVariant>),
}

#[derive(Clone, Debug, PartialEq, Eq)]
pub struct RField {
    pub comments: Vec<String>,
    pub name: String,
    pub ty: RType,
}

#[derive(Clone, Debug, PartialEq, Eq)]
pub struct RVariant {
    pub comments: Vec<String>,
    pub name: String,
}

#[derive(Clone, Debug, PartialEq, Eq)]
pub enum RKind {
    TypeStruct(Vec<RField>),
    TypeEnum(Vec<RVariant>),
    Method(Vec<RField>, Vec<RField>),
    Error(Vec<RField>),
}

#[derive(Clone, Debug, PartialEq, Eq)]
pub struct RMember {
    pub comments: Vec<String>,
    pub name: String,
    pub kind: RKind,
}

#[derive(Clone, Debug, PartialEq, Eq)]
pub struct RIface {
    pub comments: Vec<String>,
    pub name: String,
    pub members: Vec<RMember>,
}

impl RIface {
    /// Members grouped by kind (types, methods, errors), source order within each kind: the shape in
    /// which zlink's `Interface` stores them.
    pub fn by_kind(&self) -> RIface {
        let mut m: Vec<RMember> = Vec::new();
        m.extend(self.members.iter().filter(|x| matches!(x.kind, RKind::TypeStruct(_) | RKind::TypeEnum(_))).cloned());
        m.extend(self.members.iter().filter(|x| matches!(x.kind, RKind::Method(..))).cloned());
        m.extend(self.members.iter().filter(|x| matches!(x.kind, RKind::Error(_))).cloned());
        RIface { comments: self.comments.clone(), name: self.name.clone(), members: m }
    }
    /// Comments on the interface, its members and their DIRECT fields / parameters / variants kept,
    /// comments on the fields and variants of inline types nested inside a type dropped: the
    /// statements name the former only (the library drops the latter when it parses).
    pub fn without_nested_comments(&self) -> RIface {
        let stripped = self.without_comments();
        RIface {
            comments: self.comments.clone(),
            name: self.name.clone(),
            members: self
                .members
                .iter()
                .zip(stripped.members.iter())
                .map(|(m, s)| {
                    let direct = |orig: &[RField], bare: &[RField]| -> Vec<RField> { orig.iter().zip(bare).map(|(o, b)| RField { comments: o.comments.clone(), name: b.name.clone(), ty: b.ty.clone() }).collect() };
                    RMember {
                        comments: m.comments.clone(),
                        name: m.name.clone(),
                        kind: match (&m.kind, &s.kind) {
                            (RKind::TypeStruct(o), RKind::TypeStruct(b)) => RKind::TypeStruct(direct(o, b)),
                            (RKind::TypeEnum(o), _) => RKind::TypeEnum(o.clone()),
                            (RKind::Method(oi, oo), RKind::Method(bi, bo)) => RKind::Method(direct(oi, bi), direct(oo, bo)),
                            (RKind::Error(o), RKind::Error(b)) => RKind::Error(direct(o, b)),
                            _ => m.kind.clone(),
                        },
                    }
                })
                .collect(),
        }
    }
    pub fn without_comments(&self) -> RIface {
        fn ty(t: &RType) -> RType {
            match t {
                RType::Optional(x) => RType::Optional(Box::new(ty(x))),
                RType::Array(x) => RType::Array(Box::new(ty(x))),
                RType::Map(x) => RType::Map(Box::new(ty(x))),
                RType::Struct(f) => RType::Struct(fields(f)),
                RType::Enum(v) => RType::Enum(v.iter().map(|x| RVariant { comments: vec![], name: x.name.clone() }).collect()),
                x => x.clone(),
            }
        }
        fn fields(f: &[RField]) -> Vec<RField> {
            f.iter().map(|x| RField { comments: vec![], name: x.name.clone(), ty: ty(&x.ty) }).collect()
        }
        RIface {
            comments: vec![],
            name: self.name.clone(),
            members: self
                .members
                .iter()
                .map(|m| RMember {
                    comments: vec![],
                    name: m.name.clone(),
                    kind: match &m.kind {
                        RKind::TypeStruct(f) => RKind::TypeStruct(fields(f)),
                        RKind::TypeEnum(v) => RKind::TypeEnum(v.iter().map(|x| RVariant { comments: vec![], name: x.name.clone() }).collect()),
                        RKind::Method(a, b) => RKind::Method(fields(a), fields(b)),
                        RKind::Error(f) => RKind::Error(fields(f)),
                    },
                })
                .collect(),
        }
    }
    pub fn has_commented_variant(&self) -> bool {
        self.members.iter().any(|m| matches!(&m.kind, RKind::TypeEnum(v) if v.iter().any(|x| !x.comments.is_empty())))
    }
}

// ------------------------------------------------------------------------------------------------
// rendering with a layout

#[derive(Clone, Copy, Debug, PartialEq, Eq)]
pub enum Layout {
    /// no optional whitespace at all, members separated by one newline
    Minimal,
    /// single spaces around every token
    Spaced,
    /// newline + tab between all tokens
    NewlinesTabs,
    /// CRLF line ends
    Crlf,
    /// one field / variant per line (the only layout that shows comments)
    Lines,
}
pub const LAYOUTS: [Layout; 5] = [Layout::Minimal, Layout::Spaced, Layout::NewlinesTabs, Layout::Crlf, Layout::Lines];

pub fn render_type(t: &RType, sp: &str) -> String {
    match t {
        RType::Bool => "bool".into(),
        RType::Int => "int".into(),
        RType::Float => "float".into(),
        RType::String => "string".into(),
        RType::Object => "object".into(),
        RType::Custom(n) => n.clone(),
        RType::Optional(x) => format!("?{}", render_type(x, sp)),
        RType::Array(x) => format!("[]{}", render_type(x, sp)),
        RType::Map(x) => format!("[string]{}", render_type(x, sp)),
        RType::Struct(f) => format!("({sp}{}{sp})", f.iter().map(|x| format!("{}{sp}:{sp}{}", x.name, render_type(&x.ty, sp))).collect::<Vec<_>>().join(&format!("{sp},{sp}"))),
        RType::Enum(v) => format!("({sp}{}{sp})", v.iter().map(|x| x.name.clone()).collect::<Vec<_>>().join(&format!("{sp},{sp}"))),
    }
}

pub fn render(i: &RIface, l: Layout) -> String {
    let (sp, nl): (&str, &str) = match l {
        Layout::Minimal => ("", "\n"),
        Layout::Spaced => (" ", "\n"),
        Layout::NewlinesTabs => ("\n\t", "\n"),
        Layout::Crlf => (" ", "\r\n"),
        Layout::Lines => (" ", "\n"),
    };
    let mut s = String::new();
    let comments = |s: &mut String, c: &[String], indent: &str| {
        if l == Layout::Lines {
            for x in c {
                s.push_str(indent);
                s.push('#');
                if !x.is_empty() {
                    s.push(' ');
                    s.push_str(x);
                }
                s.push_str(nl);
            }
        }
    };
    let fields = |s: &mut String, f: &[RField]| {
        if l == Layout::Lines && !f.is_empty() {
            s.push('(');
            s.push_str(nl);
            for (k, x) in f.iter().enumerate() {
                comments(s, &x.comments, "  ");
                s.push_str(&format!("  {}: {}{}{nl}", x.name, render_type(&x.ty, " "), if k + 1 < f.len() { "," } else { "" }));
            }
            s.push(')');
        } else {
            s.push_str(&render_type(&RType::Struct(f.to_vec()), sp));
        }
    };
    comments(&mut s, &i.comments, "");
    s.push_str(&format!("interface{}{}", if sp.is_empty() { " " } else { sp }, i.name));
    for m in &i.members {
        s.push_str(nl);
        if l == Layout::Lines {
            s.push_str(nl);
        }
        comments(&mut s, &m.comments, "");
        let sp1 = if sp.is_empty() { " " } else { sp };
        match &m.kind {
            RKind::TypeStruct(f) => {
                s.push_str(&format!("type{sp1}{}{sp}", m.name));
                fields(&mut s, f);
            }
            RKind::TypeEnum(v) => {
                s.push_str(&format!("type{sp1}{}{sp}", m.name));
                if l == Layout::Lines {
                    s.push('(');
                    s.push_str(nl);
                    for (k, x) in v.iter().enumerate() {
                        comments(&mut s, &x.comments, "\t");
                        s.push_str(&format!("\t{}{}{nl}", x.name, if k + 1 < v.len() { "," } else { "" }));
                    }
                    s.push(')');
                } else {
                    s.push_str(&render_type(&RType::Enum(v.clone()), sp));
                }
            }
            RKind::Method(a, b) => {
                s.push_str(&format!("method{sp1}{}{sp}", m.name));
                fields(&mut s, a);
                s.push_str(&format!("{sp}->{sp}"));
                fields(&mut s, b);
            }
            RKind::Error(f) => {
                s.push_str(&format!("error{sp1}{}{sp}", m.name));
                fields(&mut s, f);
            }
        }
    }
    if l == Layout::Crlf {
        s.push_str(nl);
    }
    s
}

// ------------------------------------------------------------------------------------------------
// lifting zlink's description into the reference AST

pub fn lift_comments<'a>(it: impl Iterator<Item = &'a idl::Comment<'a>>) -> Vec<String> {
    it.map(|c| c.content().trim().to_string()).collect()
}

pub fn lift_type(t: &idl::Type<'_>) -> RType {
    match t {
        idl::Type::Bool => RType::Bool,
        idl::Type::Int => RType::Int,
        idl::Type::Float => RType::Float,
        idl::Type::String => RType::String,
        idl::Type::ForeignObject => RType::Object,
        idl::Type::Custom(n) => RType::Custom(n.to_string()),
        idl::Type::Optional(x) => RType::Optional(Box::new(lift_type(x.inner()))),
        idl::Type::Array(x) => RType::Array(Box::new(lift_type(x.inner()))),
        idl::Type::Map(x) => RType::Map(Box::new(lift_type(x.inner()))),
        idl::Type::Object(f) => RType::Struct(f.iter().map(lift_field).collect()),
        idl::Type::Enum(v) => RType::Enum(v.iter().map(|x| RVariant { comments: lift_comments(x.comments()), name: x.name().to_string() }).collect()),
    }
}
pub fn lift_field(f: &idl::Field<'_>) -> RField {
    RField { comments: lift_comments(f.comments()), name: f.name().to_string(), ty: lift_type(f.ty()) }
}

/// zlink's `Interface` in reference form (members by kind: types, methods, errors).
pub fn lift(i: &idl::Interface<'_>) -> RIface {
    let mut members = Vec::new();
    for t in i.custom_types() {
        match t {
            idl::CustomType::Object(o) => members.push(RMember { comments: lift_comments(o.comments()), name: o.name().to_string(), kind: RKind::TypeStruct(o.fields().map(lift_field).collect()) }),
            idl::CustomType::Enum(e) => members.push(RMember {
                comments: lift_comments(e.comments()),
                name: e.name().to_string(),
                kind: RKind::TypeEnum(e.variants().map(|x| RVariant { comments: lift_comments(x.comments()), name: x.name().to_string() }).collect()),
            }),
        }
    }
    for m in i.methods() {
        members.push(RMember { comments: lift_comments(m.comments()), name: m.name().to_string(), kind: RKind::Method(m.inputs().map(lift_field).collect(), m.outputs().map(lift_field).collect()) });
    }
    for e in i.errors() {
        members.push(RMember { comments: lift_comments(e.comments()), name: e.name().to_string(), kind: RKind::Error(e.fields().map(lift_field).collect()) });
    }
    RIface { comments: lift_comments(i.comments()), name: i.name().to_string(), members }
}

// ------------------------------------------------------------------------------------------------
// building zlink's description from the reference AST through the public (owned) constructors.
// Strings are leaked: the harness builds a few hundred thousand short-lived descriptions at most.

/// `'static` copies of the (few distinct) names and comment texts the harnesses use: interned, so
/// that hundreds of millions of executions do not leak a string each.
fn leak(s: &str) -> &'static str {
    thread_local! {
        static INTERNED: std::cell::RefCell<std::collections::HashMap<String, &'static str>> = std::cell::RefCell::new(std::collections::HashMap::new());
    }
    INTERNED.with(|m| {
        if let Some(x) = m.borrow().get(s) {
            return *x;
        }
        let l: &'static str = Box::leak(s.to_string().into_boxed_str());
        m.borrow_mut().insert(s.to_string(), l);
        l
    })
}
fn lower_comments(c: &[String]) -> Vec<idl::Comment<'static>> {
    c.iter().map(|x| idl::Comment::new(leak(x))).collect()
}
pub fn lower_type(t: &RType) -> idl::Type<'static> {
    match t {
        RType::Bool => idl::Type::Bool,
        RType::Int => idl::Type::Int,
        RType::Float => idl::Type::Float,
        RType::String => idl::Type::String,
        RType::Object => idl::Type::ForeignObject,
        RType::Custom(n) => idl::Type::Custom(leak(n)),
        RType::Optional(x) => idl::Type::Optional(idl::TypeRef::new_owned(lower_type(x))),
        RType::Array(x) => idl::Type::Array(idl::TypeRef::new_owned(lower_type(x))),
        RType::Map(x) => idl::Type::Map(idl::TypeRef::new_owned(lower_type(x))),
        RType::Struct(f) => idl::Type::Object(idl::List::from(f.iter().map(lower_field).collect::<Vec<_>>())),
        RType::Enum(v) => idl::Type::Enum(idl::List::from(v.iter().map(|x| idl::EnumVariant::new_owned(leak(&x.name), lower_comments(&x.comments))).collect::<Vec<_>>())),
    }
}
fn lower_field(f: &RField) -> idl::Field<'static> {
    idl::Field::new_owned(leak(&f.name), lower_type(&f.ty), lower_comments(&f.comments))
}
pub fn lower(i: &RIface) -> idl::Interface<'static> {
    let mut methods = Vec::new();
    let mut types = Vec::new();
    let mut errors = Vec::new();
    for m in &i.members {
        match &m.kind {
            RKind::TypeStruct(f) => types.push(idl::CustomType::from(idl::CustomObject::new_owned(leak(&m.name), f.iter().map(lower_field).collect(), lower_comments(&m.comments)))),
            RKind::TypeEnum(v) => types.push(idl::CustomType::from(idl::CustomEnum::new_owned(leak(&m.name), v.iter().map(|x| idl::EnumVariant::new_owned(leak(&x.name), lower_comments(&x.comments))).collect(), lower_comments(&m.comments)))),
            RKind::Method(a, b) => methods.push(idl::Method::new_owned(leak(&m.name), a.iter().map(lower_field).collect(), b.iter().map(lower_field).collect(), lower_comments(&m.comments))),
            RKind::Error(f) => errors.push(idl::Error::new_owned(leak(&m.name), f.iter().map(lower_field).collect(), lower_comments(&m.comments))),
        }
    }
    idl::Interface::new_owned(leak(&i.name), methods, types, errors, lower_comments(&i.comments))
}

// ------------------------------------------------------------------------------------------------
// the recogniser

pub fn valid_interface_name(s: &str) -> bool {
    let segs: Vec<&str> = s.split('.').collect();
    if segs.len() < 2 {
        return false;
    }
    segs.iter().enumerate().all(|(k, seg)| {
        let b = seg.as_bytes();
        if b.is_empty() {
            return false;
        }
        let first_ok = if k == 0 { b[0].is_ascii_alphabetic() } else { b[0].is_ascii_alphanumeric() };
        first_ok && b.iter().all(|c| c.is_ascii_alphanumeric() || *c == b'-') && b[b.len() - 1] != b'-'
    })
}
pub fn valid_type_name(s: &str) -> bool {
    let b = s.as_bytes();
    !b.is_empty() && b[0].is_ascii_uppercase() && b.iter().all(|c| c.is_ascii_alphanumeric())
}
pub fn valid_field_name(s: &str) -> bool {
    let b = s.as_bytes();
    if b.is_empty() || !b[0].is_ascii_alphabetic() || b[b.len() - 1] == b'_' {
        return false;
    }
    b.iter().all(|c| c.is_ascii_alphanumeric() || *c == b'_') && !s.contains("__")
}

struct P<'a> {
    b: &'a [u8],
    pos: usize,
    /// strict: comments only on their own lines at the placements the property names
    strict: bool,
}

type PR<T> = Result<T, String>;

impl<'a> P<'a> {
    fn peek(&self) -> Option<u8> {
        self.b.get(self.pos).copied()
    }
    fn starts(&self, s: &str) -> bool {
        self.b[self.pos..].starts_with(s.as_bytes())
    }
    fn spaces(&mut self) {
        while matches!(self.peek(), Some(b' ' | b'\t' | b'\n' | b'\r' | 0x0b | 0x0c)) {
            self.pos += 1;
        }
    }
    fn skip_comment(&mut self) -> String {
        // at '#'
        let start = self.pos + 1;
        while !matches!(self.peek(), None | Some(b'\n' | b'\r')) {
            self.pos += 1;
        }
        let text = String::from_utf8_lossy(&self.b[start..self.pos]).trim().to_string();
        if self.starts("\r\n") {
            self.pos += 2;
        } else if self.peek().is_some() {
            self.pos += 1;
        }
        text
    }
    /// `_*` between tokens where no comment placement is defined.
    fn ws(&mut self) -> PR<()> {
        loop {
            self.spaces();
            if self.peek() == Some(b'#') {
                if self.strict {
                    return Err("comment in a placement the property does not name".into());
                }
                self.skip_comment();
            } else {
                return Ok(());
            }
        }
    }
    /// `_*` at a comment placement; returns the comments.
    fn placement(&mut self) -> PR<Vec<String>> {
        let mut out = Vec::new();
        loop {
            self.spaces();
            if self.peek() == Some(b'#') {
                if self.strict {
                    // must be on its own line
                    let line_start = self.b[..self.pos].iter().rposition(|c| *c == b'\n' || *c == b'\r').map_or(0, |p| p + 1);
                    if !self.b[line_start..self.pos].iter().all(|c| c.is_ascii_whitespace()) {
                        return Err("comment is not on its own line".into());
                    }
                }
                out.push(self.skip_comment());
            } else {
                return Ok(out);
            }
        }
    }
    fn lit(&mut self, s: &str) -> PR<()> {
        if self.starts(s) {
            self.pos += s.len();
            Ok(())
        } else {
            Err(format!("expected `{s}` at byte {}", self.pos))
        }
    }
    fn ws1(&mut self) -> PR<()> {
        // at least one whitespace character
        let p = self.pos;
        self.spaces();
        let had_space = self.pos > p;
        if self.peek() == Some(b'#') && !self.strict {
            self.ws()?;
            return Ok(());
        }
        if had_space {
            Ok(())
        } else {
            Err(format!("expected whitespace at byte {}", self.pos))
        }
    }
    fn word(&mut self, extra: &[u8]) -> &'a str {
        let start = self.pos;
        while matches!(self.peek(), Some(c) if c.is_ascii_alphanumeric() || extra.contains(&c)) {
            self.pos += 1;
        }
        std::str::from_utf8(&self.b[start..self.pos]).unwrap_or("")
    }
    fn type_name(&mut self) -> PR<String> {
        let w = self.word(b"_");
        if valid_type_name(w) {
            Ok(w.to_string())
        } else {
            Err(format!("`{w}` is not a type name"))
        }
    }
    fn field_name(&mut self) -> PR<String> {
        let w = self.word(b"_");
        if valid_field_name(w) {
            Ok(w.to_string())
        } else {
            Err(format!("`{w}` is not a field name"))
        }
    }
    fn ty(&mut self, depth: usize) -> PR<RType> {
        if depth > 200 {
            return Err("too deep".into());
        }
        if self.starts("?") {
            self.pos += 1;
            if self.starts("?") {
                return Err("nested optional".into());
            }
            return Ok(RType::Optional(Box::new(self.nonopt(depth + 1)?)));
        }
        self.nonopt(depth)
    }
    fn nonopt(&mut self, depth: usize) -> PR<RType> {
        if self.starts("[]") {
            self.pos += 2;
            return Ok(RType::Array(Box::new(self.ty(depth + 1)?)));
        }
        if self.starts("[string]") {
            self.pos += 8;
            return Ok(RType::Map(Box::new(self.ty(depth + 1)?)));
        }
        if self.peek() == Some(b'(') {
            return self.inline(depth + 1);
        }
        let save = self.pos;
        let w = self.word(b"_");
        match w {
            "bool" => Ok(RType::Bool),
            "int" => Ok(RType::Int),
            "float" => Ok(RType::Float),
            "string" => Ok(RType::String),
            "object" => Ok(RType::Object),
            _ if valid_type_name(w) => Ok(RType::Custom(w.to_string())),
            _ => {
                self.pos = save;
                Err(format!("no type at byte {save}"))
            }
        }
    }
    /// struct or enum in type position (no comment placements inside)
    fn inline(&mut self, depth: usize) -> PR<RType> {
        self.lit("(")?;
        self.ws()?;
        if self.starts(")") {
            self.pos += 1;
            return Ok(RType::Struct(vec![]));
        }
        let first = self.field_name()?;
        self.ws()?;
        if self.starts(":") {
            // struct
            let mut fields = Vec::new();
            let mut name = first;
            loop {
                self.lit(":")?;
                self.ws()?;
                let t = self.ty(depth + 1)?;
                fields.push(RField { comments: vec![], name, ty: t });
                self.ws()?;
                if self.starts(",") {
                    self.pos += 1;
                    self.ws()?;
                    name = self.field_name()?;
                    self.ws()?;
                } else {
                    self.lit(")")?;
                    return Ok(RType::Struct(fields));
                }
            }
        }
        let mut vars = vec![RVariant { comments: vec![], name: first }];
        loop {
            if self.starts(",") {
                self.pos += 1;
                self.ws()?;
                vars.push(RVariant { comments: vec![], name: self.field_name()? });
                self.ws()?;
            } else {
                self.lit(")")?;
                return Ok(RType::Enum(vars));
            }
        }
    }
    /// member-level field list (comment placements before each field)
    fn fields(&mut self) -> PR<Vec<RField>> {
        self.lit("(")?;
        let mut out = Vec::new();
        let c = self.placement()?;
        if self.starts(")") {
            if !c.is_empty() && self.strict {
                return Err("comment before `)`".into());
            }
            self.pos += 1;
            return Ok(out);
        }
        let mut comments = c;
        loop {
            let name = self.field_name()?;
            self.ws()?;
            self.lit(":")?;
            self.ws()?;
            let t = self.ty(0)?;
            out.push(RField { comments, name, ty: t });
            self.ws()?;
            if self.starts(",") {
                self.pos += 1;
                comments = self.placement()?;
            } else {
                self.lit(")")?;
                return Ok(out);
            }
        }
    }
    /// `type X ( ... )`: struct or enum, comment placements before each field / variant
    fn typedef_body(&mut self) -> PR<RKind> {
        self.lit("(")?;
        let c = self.placement()?;
        if self.starts(")") {
            if !c.is_empty() && self.strict {
                return Err("comment before `)`".into());
            }
            self.pos += 1;
            return Ok(RKind::TypeStruct(vec![]));
        }
        let mut comments = c;
        let mut fields = Vec::new();
        let mut vars = Vec::new();
        loop {
            let name = self.field_name()?;
            self.ws()?;
            if self.starts(":") {
                self.pos += 1;
                self.ws()?;
                let t = self.ty(0)?;
                fields.push(RField { comments, name, ty: t });
                self.ws()?;
            } else {
                vars.push(RVariant { comments, name });
            }
            if self.starts(",") {
                self.pos += 1;
                comments = self.placement()?;
            } else {
                self.lit(")")?;
                break;
            }
        }
        match (fields.is_empty(), vars.is_empty()) {
            (false, true) => Ok(RKind::TypeStruct(fields)),
            (true, false) => Ok(RKind::TypeEnum(vars)),
            _ => Err("mixed typed and untyped fields".into()),
        }
    }
    fn interface(&mut self) -> PR<RIface> {
        let comments = self.placement()?;
        self.lit("interface")?;
        self.ws1()?;
        let w = self.word(b".-");
        if !valid_interface_name(w) {
            return Err(format!("`{w}` is not an interface name"));
        }
        let name = w.to_string();
        let mut members = Vec::new();
        loop {
            let before = self.pos;
            let c = self.placement()?;
            if self.peek().is_none() {
                if !c.is_empty() && self.strict {
                    return Err("trailing comment".into());
                }
                break;
            }
            if self.strict && !self.b[before..self.pos].iter().any(|x| *x == b'\n' || *x == b'\r') {
                return Err("member does not start on a new line".into());
            }
            let kw = self.word(b"");
            let kind_name = match kw {
                "type" | "method" | "error" => kw,
                _ => return Err(format!("expected a member at byte {}", self.pos)),
            };
            self.ws1()?;
            let mname = self.type_name()?;
            self.ws()?;
            let kind = match kind_name {
                "type" => self.typedef_body()?,
                "method" => {
                    let a = self.fields()?;
                    self.ws()?;
                    self.lit("->")?;
                    self.ws()?;
                    let b = self.fields()?;
                    RKind::Method(a, b)
                }
                _ => RKind::Error(self.fields()?),
            };
            members.push(RMember { comments: c, name: mname, kind });
        }
        Ok(RIface { comments, name, members })
    }
}

/// `strict`: the texts the property says must be accepted (comments only on their own lines before the
/// interface, members, direct fields, parameters and variants; one member per line).
/// `!strict`: everything derivable from the grammar with comments allowed wherever whitespace is.
pub fn recognise(text: &str, strict: bool) -> Result<RIface, String> {
    let t = text.trim();
    if t.is_empty() {
        return Err("empty".into());
    }
    let mut p = P { b: t.as_bytes(), pos: 0, strict };
    p.interface()
}

#[derive(Clone, Debug, PartialEq)]
pub enum Class {
    MustAccept(RIface),
    /// derivable only with comments / layout the property does not speak about
    DontCare(RIface),
    MustReject(String),
}

pub fn classify(text: &str) -> Class {
    match recognise(text, true) {
        Ok(t) => Class::MustAccept(t),
        Err(_) => match recognise(text, false) {
            Ok(t) => Class::DontCare(t),
            Err(e) => Class::MustReject(e),
        },
    }
}

#[cfg(test)]
mod tests {
    use super::*;
    #[test]
    fn reference_recogniser_on_hand_written_cases() {
        assert!(matches!(classify("interface a.b"), Class::MustAccept(_)));
        assert!(matches!(classify("interface a.b\ntype T (a: int, b: ?[]string)\nmethod M() -> (x: (y, z))\nerror E ()"), Class::MustAccept(_)));
        assert!(matches!(classify("# c\ninterface a.b\n# d\ntype T (\n # e\n a: int\n)"), Class::MustAccept(_)));
        assert!(matches!(classify("interface a.b type T ()"), Class::DontCare(_)));
        assert!(matches!(classify("interface a.b\ntype T (a: int) # trailing"), Class::DontCare(_)));
        for bad in ["interface a", "interface a.", "interface a.b-", "interface a.b\ntype t ()", "interface a.b\ntype T (a__b: int)", "interface a.b\ntype T (a_: int)", "interface a.b\ntype T (a: int, b)", "interface a.b\nmethod M(a:) -> ()", "interface a.b\nerror E (a: int", "interface a.b\ntype T (a: ??int)", "interface a.b\nfoo"] {
            assert!(matches!(classify(bad), Class::MustReject(_)), "{bad}");
        }
    }
}


/// The rendering of a custom enum that has a comment on a variant puts one variant per line but no
/// commas between them (a listed finding of C14 / C16).  This puts the commas where the grammar
/// wants them, so that a check can tell "nothing but the commas is wrong" from anything else: inside
/// a block opened by a line `type <Name> (`, every line that is neither a comment nor the closing
/// bracket and that is followed by another such line gets a trailing comma unless it has one.
pub fn add_missing_enum_commas(text: &str) -> String {
    let lines: Vec<&str> = text.split('\n').collect();
    let mut out: Vec<String> = Vec::with_capacity(lines.len());
    let mut in_block = false;
    for (i, l) in lines.iter().enumerate() {
        let t = l.trim();
        if !in_block {
            // (a struct whose first field carries a comment is rendered `type T (# text`, and the text may
            // end with a bracket: the opening line of a multi-line enum has no comment on it)
            if t.starts_with("type ") && t.ends_with('(') && !t.contains('#') {
                in_block = true;
            }
            out.push(l.to_string());
            continue;
        }
        if t == ")" {
            in_block = false;
            out.push(l.to_string());
            continue;
        }
        let is_item = !t.is_empty() && !t.starts_with('#');
        let more_items = lines[i + 1..].iter().map(|x| x.trim()).take_while(|x| *x != ")").any(|x| !x.is_empty() && !x.starts_with('#'));
        if is_item && more_items && !t.ends_with(',') {
            out.push(format!("{},", l.trim_end()));
        } else {
            out.push(l.to_string());
        }
    }
    out.join("\n")
}
