//! Test service for the server harnesses (filled in with the server harness).
