//! Test service for the server harnesses.
//!
//! * `t.Plain{n, tag}` -> `Single({n, tag})` (the borrowed `tag` is echoed, so that a call whose
//!   buffer was clobbered between decoding and handling shows up in the reply),
//! * `t.Fail{n}` -> `Error(t.Failed{n})`,
//! * `t.Watch{k}` -> `Multi(stream k)`, whose items are released by driver events.
//!
//! Replies depend only on the call, so what a connection must receive is computable from its own
//! script alone.  The service records every call it is handed, with the flags it saw.

use std::cell::RefCell;
use std::collections::{BTreeMap, VecDeque};
use std::pin::Pin;
use std::rc::Rc;
use std::task::{Context, Poll, Waker};

use serde::{Deserialize, Serialize};
use zlink_core::service::MethodReply;
use zlink_core::{Call, Reply, Service};

#[derive(Debug, Deserialize)]
#[serde(tag = "method", content = "parameters")]
pub enum SvcCall<'a> {
    #[serde(rename = "t.Plain")]
    Plain {
        n: u32,
        #[serde(borrow)]
        tag: &'a str,
    },
    #[serde(rename = "t.Fail")]
    Fail { n: u32 },
    #[serde(rename = "t.Watch")]
    Watch { k: u32 },
}

#[derive(Debug, Clone, Serialize, PartialEq)]
pub struct Out {
    pub n: u32,
    pub tag: String,
}

#[derive(Debug, zlink_core::ReplyError)]
#[zlink(interface = "t", crate = "zlink_core")]
pub enum SvcErr {
    Failed { n: u32 },
}

#[derive(Default)]
pub struct StreamCtl {
    pub queue: VecDeque<Reply<Out>>,
    pub ended: bool,
    pub waker: Option<Waker>,
    pub dropped: bool,
    pub produced: usize,
    /// the stream has returned `None` once
    pub end_reported: bool,
}

/// Driver-side handle to a reply stream the service has opened.
#[derive(Clone)]
pub struct StreamHandle(pub Rc<RefCell<StreamCtl>>);
impl StreamHandle {
    pub fn produce(&self, item: Reply<Out>) {
        let w = {
            let mut s = self.0.borrow_mut();
            s.queue.push_back(item);
            s.produced += 1;
            s.waker.take()
        };
        if let Some(w) = w {
            w.wake();
        }
    }
    pub fn end(&self) {
        let w = {
            let mut s = self.0.borrow_mut();
            s.ended = true;
            s.waker.take()
        };
        if let Some(w) = w {
            w.wake();
        }
    }
    pub fn dropped(&self) -> bool {
        self.0.borrow().dropped
    }
}

pub struct ControlledStream(Rc<RefCell<StreamCtl>>);
impl std::fmt::Debug for ControlledStream {
    fn fmt(&self, f: &mut std::fmt::Formatter<'_>) -> std::fmt::Result {
        write!(f, "ControlledStream")
    }
}
impl Drop for ControlledStream {
    fn drop(&mut self) {
        self.0.borrow_mut().dropped = true;
    }
}
impl futures_util::Stream for ControlledStream {
    type Item = Reply<Out>;
    fn poll_next(self: Pin<&mut Self>, cx: &mut Context<'_>) -> Poll<Option<Self::Item>> {
        let mut s = self.0.borrow_mut();
        if s.end_reported {
            // the Stream contract leaves polling after the end unspecified (`unfold` panics, others
            // stay pending for ever): a server that does it has lost track of the stream's state
            panic!("server:reply-stream-polled-after-it-ended");
        }
        if let Some(x) = s.queue.pop_front() {
            Poll::Ready(Some(x))
        } else if s.ended {
            s.end_reported = true;
            Poll::Ready(None)
        } else {
            s.waker = Some(cx.waker().clone());
            Poll::Pending
        }
    }
}

#[derive(Clone, Debug, PartialEq, Eq)]
pub struct Handled {
    /// `n` of Plain/Fail, `k` of Watch
    pub id: u32,
    pub kind: char, // 'P', 'F', 'W'
    pub oneway: bool,
    pub more: bool,
    /// value of the driver's probe when the call was handed to the service (C18: number of
    /// connection-set changes the server has made so far)
    pub epoch: u64,
}

#[derive(Clone, Default)]
pub struct SvcShared {
    pub log: Rc<RefCell<Vec<Handled>>>,
    pub streams: Rc<RefCell<BTreeMap<u32, StreamHandle>>>,
    #[allow(clippy::type_complexity)]
    pub probe: Rc<RefCell<Option<Box<dyn Fn() -> u64>>>>,
}

pub struct TestSvc {
    pub shared: SvcShared,
}

impl TestSvc {
    pub fn new() -> (TestSvc, SvcShared) {
        let shared = SvcShared::default();
        (TestSvc { shared: shared.clone() }, shared)
    }
}

impl Service for TestSvc {
    type MethodCall<'de> = SvcCall<'de>;
    type ReplyParams<'ser> = Out;
    type ReplyStreamParams = Out;
    type ReplyStream = ControlledStream;
    type ReplyError<'ser> = SvcErr;

    async fn handle<'ser>(&'ser mut self, call: Call<Self::MethodCall<'_>>) -> MethodReply<Self::ReplyParams<'ser>, Self::ReplyStream, Self::ReplyError<'ser>> {
        let (oneway, more) = (call.oneway(), call.more());
        let epoch = self.shared.probe.borrow().as_ref().map_or(0, |f| f());
        match call.method() {
            SvcCall::Plain { n, tag } => {
                self.shared.log.borrow_mut().push(Handled { id: *n, kind: 'P', oneway, more, epoch });
                MethodReply::Single(Some(Out { n: *n, tag: tag.to_string() }))
            }
            SvcCall::Fail { n } => {
                self.shared.log.borrow_mut().push(Handled { id: *n, kind: 'F', oneway, more, epoch });
                MethodReply::Error(SvcErr::Failed { n: *n })
            }
            SvcCall::Watch { k } => {
                self.shared.log.borrow_mut().push(Handled { id: *k, kind: 'W', oneway, more, epoch });
                let ctl = Rc::new(RefCell::new(StreamCtl::default()));
                self.shared.streams.borrow_mut().insert(*k, StreamHandle(ctl.clone()));
                MethodReply::Multi(ControlledStream(ctl))
            }
        }
    }
}
