//! Generates the corpora at build time, against the macros and the code generator in /repo.
use std::path::PathBuf;

#[path = "gen/codegen.rs"]
mod codegen;
#[path = "gen/introspect.rs"]
mod introspect;
#[path = "gen/proxy.rs"]
mod proxy;

fn main() {
    let out = PathBuf::from(std::env::var("OUT_DIR").unwrap());
    for (dir, thorough) in [("quick", false), ("thorough", true)] {
        std::fs::create_dir_all(out.join(dir)).unwrap();
        let (code, _n) = proxy::generate(thorough);
        std::fs::write(out.join(dir).join("proxy_corpus.rs"), code).unwrap();
        let (code, _n) = introspect::generate(thorough);
        std::fs::write(out.join(dir).join("introspect_corpus.rs"), code).unwrap();
        // the code generator under test is the one in /repo
        let run_codegen = |idl: &str| -> Result<String, String> {
            if idl == "\u{0}multi" {
                let ifaces: Vec<zlink::idl::Interface<'_>> = codegen::MULTI_IDLS.iter().map(|t| (*t).try_into().map_err(|e| format!("the IDL does not parse: {e}"))).collect::<Result<_, String>>()?;
                return std::panic::catch_unwind(|| zlink_codegen::generate_interfaces(&ifaces).map_err(|e| format!("{e:#}"))).unwrap_or_else(|_| Err("the code generator panicked".into()));
            }
            let iface: zlink::idl::Interface<'_> = idl.try_into().map_err(|e| format!("the IDL does not parse: {e}"))?;
            std::panic::catch_unwind(|| zlink_codegen::generate_interface(&iface).map_err(|e| format!("{e:#}"))).unwrap_or_else(|_| Err("the code generator panicked".into()))
        };
        let g = codegen::generate(thorough, out.join(dir).to_str().unwrap(), &run_codegen);
        for (name, src) in &g.modules {
            std::fs::write(out.join(dir).join(name), src).unwrap();
        }
        std::fs::write(out.join(dir).join("codegen_corpus.rs"), &g.index).unwrap();
        let _ = g.count;
    }
    println!("cargo:rerun-if-changed=gen");
    println!("cargo:rerun-if-changed=build.rs");
}
