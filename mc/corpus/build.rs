//! Generates the corpora at build time, against the macros and the code generator in /repo.
use std::path::PathBuf;

#[path = "gen/introspect.rs"]
mod introspect;
#[path = "gen/proxy.rs"]
mod proxy;

fn main() {
    let out = PathBuf::from(std::env::var("OUT_DIR").unwrap());
    for (dir, thorough) in [("quick", false), ("thorough", true)] {
        std::fs::create_dir_all(out.join(dir)).unwrap();
        let (code, _n) = proxy::generate(thorough);
        std::fs::write(out.join(dir).join("proxy_corpus.rs"), code).unwrap();
        let (code, _n) = introspect::generate(thorough);
        std::fs::write(out.join(dir).join("introspect_corpus.rs"), code).unwrap();
    }
    println!("cargo:rerun-if-changed=gen");
    println!("cargo:rerun-if-changed=build.rs");
}
