//! corpus (quick tier): generated programs compiled against /repo's macros and code generator.
macro_rules! corpus_file {
    ($name:literal) => {
        concat!(env!("OUT_DIR"), "/quick/", $name)
    };
}
include!("app.rs");
