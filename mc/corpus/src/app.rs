// corpus — generated programs compiled against /repo's macros and code generator:
// C12 (proxy methods put exactly the declared call on the wire).

use serde_json::Value;
use xplore::report::Report;
use xplore::{sweep, Config};

mod proxy_support {
// Hand-written support for the generated proxy corpus.

use serde::{Deserialize, Serialize};
use serde_json::Value;
use simnet::{ScriptSocket, Wire};
use zlink_core::Connection;

pub use serde_json::json;
pub use simnet::complete_or_stall;
pub use xplore::Sink;

#[derive(Debug, Serialize, Clone)]
pub struct St {
    pub a: u32,
    pub b: &'static str,
}
pub const ST1: St = St { a: 1, b: "x" };

#[derive(Debug, Serialize, Clone, Copy)]
pub struct StB<'a> {
    pub s: &'a str,
}

#[derive(Debug, Deserialize, PartialEq)]
pub struct Out {
    pub v: u32,
}
#[derive(Debug, Deserialize, PartialEq)]
pub struct OutB<'a> {
    #[serde(borrow)]
    pub s: &'a str,
}

#[derive(Debug, PartialEq, zlink_core::ReplyError)]
#[zlink(interface = "org.c", crate = "zlink_core")]
pub enum PErr {
    Bad { code: u32 },
    Worse,
}

pub fn conn_with(replies: &[&str]) -> (Wire, Connection<ScriptSocket>) {
    let wire = Wire::new(0, None);
    for r in replies {
        wire.arrive(r.as_bytes());
        wire.arrive(&[0]);
    }
    let conn = wire.connection();
    (wire, conn)
}

pub fn check(sink: &mut Sink<'_>, what: &str, name: &str, ok: bool, detail: &str) {
    if ok {
        sink.pass(xplore::hash_of(&(what, name)));
    } else {
        sink.fail(format!("proxy:{name}"), format!("{what}: {detail}"), json!({"what": what, "check": name}));
    }
}

/// The frames zlink wrote must be exactly `expect` (as JSON values and as member sets).
pub fn check_frames(sink: &mut Sink<'_>, what: &str, form: &str, wire: &Wire, expect: &[&Value]) {
    let bytes = wire.written();
    let frames: Vec<Result<Value, String>> = if bytes.is_empty() { vec![] } else { bytes[..bytes.len() - 1].split(|b| *b == 0).map(|f| serde_json::from_slice::<Value>(f).map_err(|e| e.to_string())).collect() };
    let got: Vec<Value> = frames.iter().filter_map(|f| f.as_ref().ok().cloned()).collect();
    let ok = bytes.last() == Some(&0) && got.len() == frames.len() && got.len() == expect.len() && got.iter().zip(expect).all(|(a, b)| a == *b);
    if ok {
        sink.pass(xplore::hash_of(&(what, form)));
    } else {
        let last_exp = expect.last().map(|v| v.to_string()).unwrap_or_default();
        let last_got = got.last().map(|v| v.to_string()).unwrap_or_else(|| simnet::show(&bytes));
        let class = match (got.last(), expect.last()) {
            (Some(g), Some(e)) if g["method"] != e["method"] => "wrong-method-name",
            (Some(g), Some(e)) if g.get("more") != e.get("more") || g.get("oneway") != e.get("oneway") => "wrong-flags",
            (Some(g), Some(e)) if g.get("parameters") != e.get("parameters") => "wrong-parameters",
            _ => "wrong-frames",
        };
        sink.fail(format!("proxy:{form}-form:{class}"), format!("{what}: the {form} form wrote `{last_got}` ({} frame(s)), the declaration says `{last_exp}`", frames.len()), json!({"what": what, "form": form}));
    }
}

/// Poll a stream whose items are already there.
pub fn next_item<S: futures_util::Stream + ?Sized>(s: std::pin::Pin<&mut S>) -> Option<Option<S::Item>> {
    use futures_util::StreamExt;
    let mut s = s;
    complete_or_stall(s.next())
}

#[allow(unused_imports, clippy::all)]
pub mod corpus {
    use super::*;
    include!(corpus_file!("proxy_corpus.rs"));
}

}

mod introspect_support {
    // Hand-written support for the generated introspection corpus.
    pub use serde_json::json;
    pub use simnet::idlref::*;
    pub use xplore::Sink;
    pub use zlink_core::idl;
    pub use zlink_core::introspect::{CustomType, ReplyError, Type};

    #[derive(zlink_core::introspect::CustomType)]
    #[zlink(crate = "zlink_core")]
    #[allow(dead_code)]
    pub struct Inner {
        pub v: u8,
    }
    #[derive(zlink_core::introspect::CustomType)]
    #[zlink(crate = "zlink_core")]
    #[allow(dead_code)]
    pub enum InnerEnum {
        On,
        Off,
    }
    #[derive(zlink_core::introspect::Type)]
    #[zlink(crate = "zlink_core")]
    #[allow(dead_code)]
    pub struct Anon {
        pub n: i64,
        pub label: Option<String>,
    }
    pub fn anon_expected() -> RType {
        RType::Struct(vec![RField { comments: vec![], name: "n".into(), ty: RType::Int }, RField { comments: vec![], name: "label".into(), ty: RType::Optional(Box::new(RType::String)) }])
    }

    fn report(sink: &mut Sink<'_>, what: &str, class: &str, got: String, expect: String, ok: bool) {
        if ok {
            sink.pass(xplore::hash_of(&(what, class)));
        } else {
            sink.fail(format!("introspect:{class}"), format!("{what}: derived {got}, the Rust type says {expect}"), json!({"type": what, "check": class}));
        }
    }
    pub fn check_type(sink: &mut Sink<'_>, what: &str, got: &idl::Type<'_>, expect: &RType) {
        let l = lift_type(got);
        report(sink, what, "wrong-type-description", format!("{l:?}"), format!("{expect:?}"), &l == expect);
    }
    pub fn check_custom(sink: &mut Sink<'_>, what: &str, got: &idl::CustomType<'_>, expect: &RMember) {
        let iface = idl::Interface::new_owned("x.y", vec![], vec![got.clone()], vec![], vec![]);
        let l = lift(&iface).members.pop();
        report(sink, what, "wrong-custom-type-description", format!("{l:?}"), format!("{expect:?}"), l.as_ref() == Some(expect));
    }
    pub fn check_errors(sink: &mut Sink<'_>, what: &str, got: &[&idl::Error<'_>], expect: &[RMember]) {
        let iface = idl::Interface::new_owned("x.y", vec![], vec![], got.iter().map(|e| (*e).clone()).collect(), vec![]);
        let l = lift(&iface).members;
        report(sink, what, "wrong-error-description", format!("{l:?}"), format!("{expect:?}"), l == expect);
    }
    /// An interface assembled from derived descriptions renders to text that parses back equal.
    pub fn check_interface(sink: &mut Sink<'_>, what: &str, iface: &idl::Interface<'_>) {
        let want = lift(iface);
        let text = iface.to_string();
        // the listed finding (enum with a commented variant rendered without commas) covers this
        // interface only if putting those commas in is all it takes
        // comments on the fields of inline types nested in a type are not among those the statements
        // name (the parser drops them): compared without them
        let want = want.without_nested_comments();
        let only_commas = want.has_commented_variant() && idl::Interface::try_from(simnet::idlref::add_missing_enum_commas(&text).as_str()).map_or(false, |p| lift(&p).without_nested_comments() == want);
        let node = if only_commas { ":custom-enum-with-commented-variant" } else { "" };
        match idl::Interface::try_from(text.as_str()) {
            Ok(p) => {
                let got = lift(&p).without_nested_comments();
                report(sink, what, &format!("interface-parses-back-differently{node}"), format!("{got:?}"), format!("{want:?}"), got == want);
            }
            Err(e) => sink.fail(format!("introspect:interface-text-not-parseable{node}"), format!("{what}: the assembled interface renders as `{}` which does not parse: {e}", simnet::show(text.as_bytes())), json!({"interface": what})),
        }
    }

    #[allow(unused_imports, clippy::all)]
    pub mod corpus {
        use super::*;
        include!(corpus_file!("introspect_corpus.rs"));
    }
}

pub mod codegen_support {
    // Hand-written support for the generated code-generator corpus.
    pub use serde_json::json;
    use serde_json::Value;
    pub use simnet::complete_or_stall;
    use simnet::{ScriptSocket, Wire};
    pub use xplore::Sink;
    use zlink_core::Connection;

    pub fn conn_with(replies: &[&str]) -> (Wire, Connection<ScriptSocket>) {
        let wire = Wire::new(0, None);
        for r in replies {
            wire.arrive(r.as_bytes());
            wire.arrive(&[0]);
        }
        let conn = wire.connection();
        (wire, conn)
    }
    pub fn check(sink: &mut Sink<'_>, iface: &str, name: &str, ok: bool, detail: &str) {
        if ok {
            sink.pass(xplore::hash_of(&(iface, name)));
        } else {
            let kind = name.split(':').nth(1).unwrap_or(name).trim().replace(' ', "-");
            sink.fail(format!("codegen:{kind}"), format!("interface {iface}, {name}: {detail}"), json!({"interface": iface, "check": name}));
        }
    }
    /// A value of a generated type is built from JSON that uses the IDL's spellings and must encode
    /// back to the same JSON.
    pub fn round_trip<T: serde::de::DeserializeOwned + serde::Serialize + std::fmt::Debug>(sink: &mut Sink<'_>, iface: &str, what: &str, j: Value) {
        match serde_json::from_value::<T>(j.clone()) {
            Err(e) => sink.fail("codegen:idl-spelled-value-not-decodable", format!("interface {iface}, {what}: `{j}` does not decode as the generated type: {e}"), json!({"interface": iface, "check": what})),
            Ok(v) => match serde_json::to_value(&v) {
                Ok(back) if strip_nulls(&back) == strip_nulls(&j) => sink.pass(xplore::hash_of(&(iface, what))),
                other => sink.fail("codegen:value-encodes-with-other-spellings", format!("interface {iface}, {what}: `{j}` decoded as {v:?} and encodes as {other:?}"), json!({"interface": iface, "check": what})),
            },
        }
    }
    fn strip_nulls(v: &Value) -> Value {
        match v {
            Value::Object(m) => Value::Object(m.iter().filter(|(_, x)| !x.is_null()).map(|(k, x)| (k.clone(), strip_nulls(x))).collect()),
            Value::Array(a) => Value::Array(a.iter().map(strip_nulls).collect()),
            x => x.clone(),
        }
    }
    /// The one frame the generated proxy method wrote must be the call the IDL describes.
    pub fn check_call(sink: &mut Sink<'_>, iface: &str, what: &str, wire: &Wire, expect: &Value) {
        let bytes = wire.written();
        let got: Option<Value> = if bytes.last() == Some(&0) && !bytes[..bytes.len() - 1].contains(&0) { serde_json::from_slice(&bytes[..bytes.len() - 1]).ok() } else { None };
        match got {
            Some(g) if &g == expect => sink.pass(xplore::hash_of(&(iface, what, "call"))),
            Some(g) => {
                let class = if g["method"] != expect["method"] { "codegen:wrong-method-name-on-the-wire" } else { "codegen:wrong-parameters-on-the-wire" };
                sink.fail(class, format!("interface {iface}, {what}: sent `{g}`, the IDL says `{expect}`"), json!({"interface": iface, "check": what}))
            }
            None => sink.fail("codegen:not-exactly-one-call-frame", format!("interface {iface}, {what}: wrote `{}`", simnet::show(&bytes)), json!({"interface": iface, "check": what})),
        }
    }

    #[allow(unused_imports, clippy::all)]
    pub mod corpus {
        use super::*;
        include!(corpus_file!("codegen_corpus.rs"));
    }
}

fn run_c15(tier: &str) -> i32 {
    use codegen_support::corpus;
    let mut rep = Report::new("C15", tier);
    rep.rule = format!("generated corpus of {} interfaces (1..3 methods with 0..3 inputs and 0..2 outputs, 0..1 custom struct, 0..1 custom enum, 0..2 errors; names drawn from alphabets with acronyms (GetURL, HTTPGet, NotOK), digits (Get2FA, E2BIG), camelCase and snake_case fields and variants, Rust keywords (type, match, fn, async); 19 value types incl. optional, array, map, custom, inline struct/enum, object) run through /repo's zlink_codegen at build time and compiled; per interface: every custom type and error is built from IDL-spelled JSON and encoded back, every enum value likewise, every method is called through the generated proxy (frame compared with the IDL's method path, parameter names and JSON values; None arguments omitted), its reply decoded and re-encoded under the IDL's output names, its first declared error recognised. Distinct = distinct (interface, check) pairs", corpus::N_INTERFACES);
    rep.assumptions = vec!["Rust-side names are never predicted: values are built from JSON, method function names are read positionally from the generated trait".into(), "interfaces are non-recursive and free of names that collide after case folding".into()];
    rep.extra.insert("programs".into(), serde_json::json!(corpus::N_INTERFACES));
    rep.require_goal("interface-exercised");
    let cfg = Config { max_wall: std::time::Duration::from_secs(600), ..Default::default() };
    rep.add(sweep("codegen-corpus", corpus::CASES.len() as u64, &cfg, |i, s| {
        s.goal("interface-exercised");
        if s.wants_sample() {
            // (the cases of the multi-interface module come after the per-interface ones and have no text of their own here)
            s.sample(|| serde_json::json!({"interface": corpus::IDLS.get(i as usize).copied().unwrap_or("(case of the multi-interface module)")}));
        }
        (corpus::CASES[i as usize])(s)
    }));
    rep.finish()
}

fn run_c16(tier: &str) -> i32 {
    let mut rep = Report::new("C16", tier);
    rep.rule = format!("generated corpus of {} derived types (structs with the Type and the CustomType derive over every supported field type: 20 leaf types, 11 wrappers/collections around every leaf, every pair of wrappers, depth-3 samples; 0..6 fields incl. raw identifiers; unit-variant enums; error enums with unit, struct and single-tuple variants; lifetimes; doc comments on types, fields and variants) compiled against /repo's derive macros; every derived TYPE / CUSTOM_TYPE / VARIANTS is compared deeply (names, order, Varlink types, comments) with the description the generator computes from its own model of the Rust type; interfaces assembled from derived descriptions are rendered and parsed back. Distinct = distinct (type, check) pairs", introspect_support::corpus::N_TYPES);
    rep.assumptions = vec!["directly nested Option<Option<T>> has no Varlink spelling and is not generated; comment text is compared modulo surrounding whitespace; the mappings of Duration, paths, OsStr, network addresses and serde_json::Value are not asserted (the statement does not fix them)".into()];
    rep.extra.insert("programs".into(), serde_json::json!(introspect_support::corpus::N_TYPES));
    rep.require_goal("derived-type-checked");
    let cfg = Config { max_wall: std::time::Duration::from_secs(600), ..Default::default() };
    rep.add(sweep("introspect-corpus", introspect_support::corpus::CASES.len() as u64, &cfg, |i, s| {
        s.goal("derived-type-checked");
        (introspect_support::corpus::CASES[i as usize])(s)
    }));
    rep.finish()
}

/// Run `sockets <sub> --tier <tier>` of the main build and add what it reports as phase `phase` (the
/// counterpart of zcheck's `common::child_phase_bin`): the child's violations become violations of
/// this run and carry their complete replay records.  `Err(2)` on a machinery problem.
fn child_phase(rep: &mut Report, sub: &str, tier: &str, phase: &str) -> Result<(), i32> {
    let exe = xplore::report::build_dir("main").join("release").join("sockets");
    let out = std::process::Command::new(&exe).args([sub, "--tier", tier]).output().map_err(|e| {
        eprintln!("MACHINERY: cannot run {}: {e}", exe.display());
        2
    })?;
    let txt = String::from_utf8_lossy(&out.stdout).to_string();
    let v: Value = match (out.status.success(), txt.lines().last().and_then(|l| serde_json::from_str(l).ok())) {
        (true, Some(v)) => v,
        _ => {
            eprintln!("MACHINERY: {} {sub} ended with {:?}: {}", exe.display(), out.status, String::from_utf8_lossy(&out.stderr).lines().last().unwrap_or(""));
            return Err(2);
        }
    };
    if v["errors"].as_array().map_or(true, |a| !a.is_empty()) || v["caps"].as_array().map_or(true, |a| !a.is_empty()) {
        eprintln!("MACHINERY: child {sub}: errors {} caps {}", v["errors"], v["caps"]);
        return Err(2);
    }
    let viol: Vec<Value> = v["violations"].as_array().cloned().unwrap_or_default();
    let goals: Vec<(&'static str, u64)> = v["goals"].as_object().map(|m| m.iter().map(|(k, c)| (&*Box::leak(k.clone().into_boxed_str()), c.as_u64().unwrap_or(0))).collect()).unwrap_or_default();
    let (evals, nout, trans) = (v["evals"].as_u64().unwrap_or(0), v["outcomes"].as_u64().unwrap_or(0), v["transitions"].as_u64().unwrap_or(0));
    let n = evals.max(viol.len() as u64).max(1);
    let sub = sub.to_string();
    rep.add(sweep(phase, n, &Config { threads: 1, ..Default::default() }, |i, s| {
        if i == 0 {
            for (g, c) in &goals {
                for _ in 0..(*c).min(3) {
                    s.goal(g);
                }
            }
            s.steps(trans);
        }
        match viol.get(i as usize) {
            Some(x) => s.fail(x["class"].as_str().unwrap_or("child:violation"), x["detail"].as_str().unwrap_or(""), serde_json::json!({"child": sub, "bin": "sockets", "flavor": "main", "index": x["index"], "case": x["case"], "child_replay": x["replay"]})),
            None => {
                if i < 4 {
                    s.sample(|| serde_json::json!({"phase_run_in_child_process": sub, "build": "main", "case_number": i, "result": "as required"}));
                }
                s.pass(if i < nout { i } else { 0 })
            }
        }
    }));
    Ok(())
}

fn run_c12(tier: &str) -> i32 {
    let mut rep = Report::new("C12", tier);
    rep.rule = format!("generated corpus of {} proxy methods in {} traits (every parameter list of length 0..2 over 11 parameter types, every type also in 3rd and 4th position; names with 1..4 words and digits; method and parameter renames; elided and explicit lifetimes; a generic parameter; plain / more / oneway; unit, owned and borrowed outputs), compiled against /repo's proxy macro; per method every combination of boundary argument values x call forms {{plain, chain_ start, chain extension}} x scripted replies {{success, declared error, undeclared error, EOF, 3 streamed items}}; the expected frame is built from the declaration by the generator. Distinct = distinct (method, check) pairs", proxy_support::corpus::N_METHODS, proxy_support::corpus::N_METHODS.div_ceil(12));
    rep.assumptions = vec!["PascalCase of a snake_case name capitalises the first character of every `_`-separated word and drops the underscores".into()];
    rep.extra.insert("programs".into(), serde_json::json!(proxy_support::corpus::N_METHODS));
    rep.require_goal("proxy-method-exercised");
    let cfg = Config { max_wall: std::time::Duration::from_secs(600), ..Default::default() };
    rep.add(sweep("proxy-corpus", proxy_support::corpus::CASES.len() as u64, &cfg, |i, s| {
        s.goal("proxy-method-exercised");
        (proxy_support::corpus::CASES[i as usize])(s)
    }));
    // the calls a generated method sends, over the shipped transports (child process)
    rep.rule.push_str("; plus (child process `sockets c12-child`) a generated oneway method over real socket pairs with the zlink-tokio / zlink-smol transports and a raw std reader at the other end: sequences of 1..2 calls with an argument of 300 B .. 150 KB (characters that need escaping), and sequences in which one call is abandoned at its 1st / 2nd / 4th pending poll (a timeout, the losing arm of a select) and further calls follow; what the reader takes off must be exactly the calls the rule describes, each followed by one NUL (bytes of an abandoned call that were not yet written go out with the next one)");
    rep.require_goal("proxy-call-abandoned-then-another-proxy-call");
    rep.require_goal("proxy-calls-of-several-socket-writes");
    if let Err(code) = child_phase(&mut rep, "c12-child", tier, "generated-proxy-method-over-real-sockets/tokio+smol(child)") {
        return code;
    }
    rep.finish()
}

fn replay(path: &str) -> i32 {
    let v: Value = match std::fs::read_to_string(path).ok().and_then(|t| serde_json::from_str(&t).ok()) {
        Some(v) => v,
        None => {
            eprintln!("MACHINERY: cannot read {path}");
            return 2;
        }
    };
    if v["case"]["child_replay"].is_object() {
        // a counterexample of the child process: hand its record to that binary's own --replay
        let dir = xplore::report::build_dir("main");
        let file = dir.join(format!("child-replay-{:08x}.json", xplore::hash_of(&v["case"]["child_replay"].to_string()) & 0xffff_ffff));
        if let Err(e) = std::fs::write(&file, v["case"]["child_replay"].to_string()) {
            eprintln!("MACHINERY: cannot write {}: {e}", file.display());
            return 2;
        }
        let exe = dir.join("release").join("sockets");
        return match std::process::Command::new(&exe).arg("--replay").arg(&file).output() {
            Ok(o) => {
                let text = String::from_utf8_lossy(&o.stdout).to_string();
                match o.status.code() {
                    Some(0) => {
                        println!("replay of {path}: the property HOLDS on this case now");
                        0
                    }
                    Some(1) => {
                        let find = |key: &str| text.lines().find_map(|l| l.strip_prefix(key)).unwrap_or("").to_string();
                        println!("VIOLATION property={} replay={path}\n  class: {}\n  detail: {}", v["property"].as_str().unwrap_or("C12"), find("  class: "), find("  detail: "));
                        1
                    }
                    other => {
                        eprintln!("MACHINERY: {} --replay ended with {other:?}", exe.display());
                        2
                    }
                }
            }
            Err(e) => {
                eprintln!("MACHINERY: cannot run {}: {e}", exe.display());
                2
            }
        };
    }
    let prop = v["property"].as_str().unwrap_or("");
    let idx = v["index"].as_u64().unwrap_or(0);
    let class = v["class"].as_str().unwrap_or("");
    let st = match prop {
        "C12" => xplore::sweep_one("replay", idx, &Config { threads: 1, ..Default::default() }, |i, s| (proxy_support::corpus::CASES[i as usize])(s)),
        "C15" => xplore::sweep_one("replay", idx, &Config { threads: 1, ..Default::default() }, |i, s| (codegen_support::corpus::CASES[i as usize])(s)),
        "C16" => xplore::sweep_one("replay", idx, &Config { threads: 1, ..Default::default() }, |i, s| (introspect_support::corpus::CASES[i as usize])(s)),
        _ => {
            eprintln!("MACHINERY: no replay handler for `{prop}`");
            return 2;
        }
    };
    match st.violations.iter().find(|(c, _)| c.as_str() == class).or(st.violations.iter().next()) {
        Some((c, rec)) => {
            println!("VIOLATION property={prop} replay={path}\n  class: {c}\n  detail: {}", rec.detail);
            1
        }
        None => {
            println!("replay of {path}: the property HOLDS on this case now");
            0
        }
    }
}

fn main() {
    let args: Vec<String> = std::env::args().skip(1).collect();
    let tier = args.iter().position(|a| a == "--tier").and_then(|i| args.get(i + 1)).map(|s| s.as_str()).unwrap_or("quick").to_string();
    let code = match args.first().map(|s| s.as_str()) {
        Some("c12") => run_c12(&tier),
        Some("c16") => run_c16(&tier),
        Some("c15") => run_c15(&tier),
        Some("--replay") => replay(args.get(1).map(|s| s.as_str()).unwrap_or("")),
        _ => {
            eprintln!("usage: corpus c12 [--tier quick|thorough] | --replay <file>");
            2
        }
    };
    std::process::exit(code);
}
