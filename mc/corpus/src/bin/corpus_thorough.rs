//! corpus (thorough tier): the larger generated corpora.
macro_rules! corpus_file {
    ($name:literal) => {
        concat!(env!("OUT_DIR"), "/thorough/", $name)
    };
}
include!("../app.rs");
