//! Build-time generator of the C12 proxy corpus: systematically enumerated `#[proxy]` traits plus,
//! per method, straight-line test code with the frame expected from the *declaration*.

use std::fmt::Write;

#[derive(Clone, Copy, PartialEq, Eq, Debug)]
pub enum Ty {
    U32,
    F64,
    Bool,
    Str,
    OptStr,
    OptI64,
    Bytes,
    Strs,
    StRef,
    StB,
    Generic,
    OptStd,
    OptAbsStd,
    OptAbsCore,
    OptCore,
}
/// other ways of writing `Option` in a declaration
pub const OPT_SPELLINGS: [Ty; 4] = [Ty::OptStd, Ty::OptAbsStd, Ty::OptAbsCore, Ty::OptCore];
pub const TYS: [Ty; 11] = [Ty::U32, Ty::F64, Ty::Bool, Ty::Str, Ty::OptStr, Ty::OptI64, Ty::Bytes, Ty::Strs, Ty::StRef, Ty::StB, Ty::Generic];

impl Ty {
    /// Rust type in the trait declaration (elided lifetimes / explicit lifetime 'a).
    fn decl(self, explicit: bool, generic_name: &str) -> String {
        let lt = if explicit { "'a " } else { "" };
        match self {
            Ty::U32 => "u32".into(),
            Ty::F64 => "f64".into(),
            Ty::Bool => "bool".into(),
            Ty::Str => format!("&{lt}str"),
            Ty::OptStr => format!("Option<&{lt}str>"),
            Ty::OptI64 => "Option<i64>".into(),
            Ty::Bytes => format!("&{lt}[u8]"),
            Ty::Strs => format!("&{lt}[&{lt}str]"),
            Ty::StRef => format!("&{lt}St"),
            Ty::StB => if explicit { "StB<'a>".into() } else { "StB<'_>".into() },
            Ty::Generic => generic_name.into(),
            Ty::OptStd => "std::option::Option<i64>".into(),
            Ty::OptAbsStd => format!("::std::option::Option<&{lt}str>"),
            Ty::OptAbsCore => "::core::option::Option<u32>".into(),
            Ty::OptCore => "core::option::Option<bool>".into(),
        }
    }
    fn has_lifetime(self) -> bool {
        matches!(self, Ty::Str | Ty::OptStr | Ty::Bytes | Ty::Strs | Ty::StRef | Ty::StB | Ty::OptAbsStd)
    }
    /// (Rust expression, JSON expression or None = the argument is omitted on the wire)
    fn values(self) -> Vec<(&'static str, Option<&'static str>)> {
        match self {
            Ty::U32 => vec![("0u32", Some("0")), ("4000000000u32", Some("4000000000u32"))],
            Ty::F64 => vec![("1.5f64", Some("1.5")), ("-0.25f64", Some("-0.25"))],
            Ty::Bool => vec![("true", Some("true")), ("false", Some("false"))],
            Ty::Str => vec![("\"\"", Some("\"\"")), ("\"s\\\"q\\u{e9}\"", Some("\"s\\\"q\\u{e9}\""))],
            Ty::OptStr => vec![("None::<&str>", None), ("Some(\"x\")", Some("\"x\""))],
            Ty::OptI64 => vec![("None::<i64>", None), ("Some(-5i64)", Some("-5"))],
            Ty::Bytes => vec![("&[][..]", Some("[]")), ("&[1u8, 255u8][..]", Some("[1, 255]"))],
            Ty::Strs => vec![("&[\"a\", \"b\"][..]", Some("[\"a\", \"b\"]")), ("&[][..]", Some("[]"))],
            Ty::StRef => vec![("&ST1", Some("{\"a\": 1, \"b\": \"x\"}"))],
            Ty::StB => vec![("StB { s: \"y\" }", Some("{\"s\": \"y\"}"))],
            Ty::Generic => vec![("7u8", Some("7")), ("\"gen\"", Some("\"gen\""))],
            Ty::OptStd => vec![("None", None), ("Some(-5i64)", Some("-5"))],
            Ty::OptAbsStd => vec![("None", None), ("Some(\"x\")", Some("\"x\""))],
            Ty::OptAbsCore => vec![("None", None), ("Some(9u32)", Some("9"))],
            Ty::OptCore => vec![("None", None), ("Some(true)", Some("true"))],
        }
    }
}

#[derive(Clone, Copy, PartialEq, Eq, Debug)]
pub enum Kind {
    Plain,
    More,
    Oneway,
}
#[derive(Clone, Copy, PartialEq, Eq, Debug)]
pub enum Out {
    Unit,
    Owned,
    Borrowed,
}

#[derive(Clone, Debug)]
pub struct Method {
    pub rust_name: String,
    pub rename: Option<&'static str>,
    pub params: Vec<(String, Ty, Option<String>)>, // (rust name, type, wire rename)
    pub explicit_lifetimes: bool,
    pub kind: Kind,
    pub out: Out,
}

const NAMES: [&str; 9] = ["a", "get_x", "get_2fa", "get_url_now", "x2", "do_the_big_thing", "a_b_c", "sha256_sum", "v1_2x"];
const PNAMES: [&str; 6] = ["p", "user_name", "n2", "the_long_one", "x_1", "a_b"];

/// PascalCase of a snake_case name, written from the definition (not from the macro).
pub fn pascal(s: &str) -> String {
    s.split('_')
        .map(|w| {
            let mut c = w.chars();
            match c.next() {
                Some(f) => f.to_uppercase().collect::<String>() + c.as_str(),
                None => String::new(),
            }
        })
        .collect()
}

pub fn methods(thorough: bool) -> Vec<Method> {
    let mut lists: Vec<Vec<Ty>> = vec![vec![]];
    for a in TYS {
        lists.push(vec![a]);
    }
    for a in TYS {
        for b in TYS {
            lists.push(vec![a, b]);
        }
    }
    // longer lists: every type once in the 3rd and 4th position
    for (i, a) in TYS.iter().enumerate() {
        lists.push(vec![TYS[(i + 3) % 11], TYS[(i + 7) % 11], *a]);
        lists.push(vec![Ty::OptStr, TYS[(i + 5) % 11], Ty::OptI64, *a]);
    }
    let mut out = Vec::new();
    let mut k = 0usize;
    let kinds = [Kind::Plain, Kind::More, Kind::Oneway];
    let outs = [Out::Owned, Out::Unit, Out::Borrowed];
    for (li, l) in lists.iter().enumerate() {
        // at most one generic parameter per method (the generator gives it one type name)
        if l.iter().filter(|t| **t == Ty::Generic).count() > 1 {
            continue;
        }
        // the argument-less method and the one-argument methods come in every kind in both tiers
        let variants: Vec<usize> = if thorough || l.is_empty() { (0..3).collect() } else { vec![li % 3] };
        for v in variants {
            let kind = kinds[v];
            let n = k;
            k += 1;
            let explicit = n % 4 == 1 && l.iter().any(|t| t.has_lifetime());
            out.push(Method {
                rust_name: format!("{}_{n}", NAMES[n % NAMES.len()]),
                rename: if n % 5 == 2 { Some(["GetURL", "X", "lowerCamel", "Get2FA"][n % 4]) } else { None },
                params: l.iter().enumerate().map(|(j, t)| (PNAMES[(j + n) % PNAMES.len()].to_string(), *t, if (n + j) % 3 == 0 { Some(["wireName", "other-name", "n"][(n + j) % 3 + (j % 2)].to_string()) } else { None })).collect(),
                explicit_lifetimes: explicit,
                kind,
                out: if kind == Kind::Oneway { Out::Unit } else { outs[(n / 2) % 3] },
            });
        }
    }
    // arguments whose names mean something elsewhere in the protocol or are likely names of locals
    // in the generated code: inside `parameters` they are ordinary members
    let special = ["method", "parameters", "more", "oneway", "upgrade", "error", "continues", "call", "reply", "conn", "connection", "result", "params"];
    let tys: Vec<Ty> = if thorough { TYS.to_vec() } else { vec![Ty::Str, Ty::U32, Ty::OptStr] };
    for (si, name) in special.iter().enumerate() {
        for (ti, t) in tys.iter().enumerate() {
            let n = k;
            k += 1;
            let kind = kinds[(si + ti) % 3];
            let mut params = vec![(name.to_string(), *t, None)];
            if (si + ti) % 2 == 0 {
                params.push((special[(si + 1) % special.len()].to_string(), Ty::Bool, None));
            }
            out.push(Method { rust_name: format!("sp_{n}"), rename: None, params, explicit_lifetimes: false, kind, out: if kind == Kind::Oneway { Out::Unit } else { outs[n % 3] } });
        }
    }
    // `Option` written with a path (as macro- or tool-generated declarations do): still an optional argument
    for (oi, o) in OPT_SPELLINGS.iter().enumerate() {
        for v in 0..3 {
            let n = k;
            k += 1;
            let kind = kinds[(oi + v) % 3];
            let mut params = vec![(PNAMES[(oi + v) % PNAMES.len()].to_string(), *o, if v == 2 { Some("wire-Name".to_string()) } else { None })];
            if v >= 1 {
                params.push(("second".to_string(), OPT_SPELLINGS[(oi + 1) % OPT_SPELLINGS.len()], None));
            }
            out.push(Method { rust_name: format!("opt_{n}"), rename: None, params, explicit_lifetimes: false, kind, out: if kind == Kind::Oneway { Out::Unit } else { outs[n % 3] } });
        }
    }
    // arguments spelled as raw identifiers: the name is the identifier without its `r#` prefix
    let raw = ["r#type", "r#ref", "r#match", "r#fn", "r#async", "r#struct", "r#mod", "r#use"];
    for (ri, name) in raw.iter().enumerate() {
        for (ti, t) in tys.iter().enumerate() {
            let n = k;
            k += 1;
            let kind = kinds[(ri + ti) % 3];
            let mut params = vec![(name.to_string(), *t, if (ri + ti) % 4 == 3 { Some("wire-Name".to_string()) } else { None })];
            if (ri + ti) % 2 == 1 {
                params.push((raw[(ri + 3) % raw.len()].to_string(), Ty::OptI64, None));
            }
            out.push(Method { rust_name: format!("raw_{n}"), rename: None, params, explicit_lifetimes: false, kind, out: if kind == Kind::Oneway { Out::Unit } else { outs[n % 3] } });
        }
    }
    out
}

pub fn generate(thorough: bool) -> (String, usize) {
    let ms = methods(thorough);
    let per_trait = 12;
    let mut s = String::new();
    writeln!(s, "// generated by corpus/gen/proxy.rs — {} methods", ms.len()).unwrap();
    let ntraits = ms.len().div_ceil(per_trait);
    for t in 0..ntraits {
        writeln!(s, "#[zlink_core::proxy(interface = \"org.c.T{t}\", crate = \"zlink_core\")]\npub trait T{t} {{").unwrap();
        writeln!(s, "    async fn anchor_{t}(&mut self) -> zlink_core::Result<Result<Out, PErr>>;").unwrap();
        for m in &ms[t * per_trait..((t + 1) * per_trait).min(ms.len())] {
            let mut attrs = Vec::new();
            if let Some(r) = m.rename {
                attrs.push(format!("rename = \"{r}\""));
            }
            match m.kind {
                Kind::More => attrs.push("more".into()),
                Kind::Oneway => attrs.push("oneway".into()),
                Kind::Plain => {}
            }
            if !attrs.is_empty() {
                writeln!(s, "    #[zlink({})]", attrs.join(", ")).unwrap();
            }
            let has_generic = m.params.iter().any(|p| p.1 == Ty::Generic);
            let mut generics = Vec::new();
            if m.explicit_lifetimes {
                generics.push("'a".to_string());
            }
            if has_generic {
                generics.push("G: serde::Serialize + core::fmt::Debug".to_string());
            }
            let g = if generics.is_empty() { String::new() } else { format!("<{}>", generics.join(", ")) };
            let params: Vec<String> = m
                .params
                .iter()
                .map(|(n, t, r)| format!("{}{n}: {}", r.as_ref().map(|r| format!("#[zlink(rename = \"{r}\")] ")).unwrap_or_default(), t.decl(m.explicit_lifetimes, "G")))
                .collect();
            let out_ty = match (m.out, m.explicit_lifetimes) {
                (Out::Unit, _) => "()".to_string(),
                (Out::Owned, _) => "Out".to_string(),
                (Out::Borrowed, _) => "OutB<'_>".to_string(),
            };
            let ret = match m.kind {
                Kind::Oneway => "zlink_core::Result<()>".to_string(),
                Kind::Plain => format!("zlink_core::Result<Result<{out_ty}, PErr>>"),
                Kind::More => format!("zlink_core::Result<impl futures_util::Stream<Item = zlink_core::Result<Result<{out_ty}, PErr>>>>"),
            };
            writeln!(s, "    async fn {}{g}(&mut self{}{}) -> {ret};", m.rust_name, if params.is_empty() { "" } else { ", " }, params.join(", ")).unwrap();
        }
        writeln!(s, "}}\n").unwrap();
    }
    // one test function per method
    for (i, m) in ms.iter().enumerate() {
        let t = i / per_trait;
        let wire_name = m.rename.map(|r| r.to_string()).unwrap_or_else(|| pascal(&m.rust_name));
        let path = format!("org.c.T{t}.{wire_name}");
        writeln!(s, "pub fn case_{i}(sink: &mut Sink<'_>) {{").unwrap();
        writeln!(s, "    let decl = {:?};", format!("T{t}::{} {:?}", m.rust_name, m)).unwrap();
        // all combinations of argument values
        let vals: Vec<Vec<(&str, Option<&str>)>> = m.params.iter().map(|p| p.1.values()).collect();
        let combos: usize = vals.iter().map(|v| v.len()).product::<usize>().max(1);
        for c in 0..combos {
            let mut idx = c;
            let mut args = Vec::new();
            let mut members = Vec::new();
            for (p, v) in m.params.iter().zip(&vals) {
                let (rust, json) = v[idx % v.len()];
                idx /= v.len();
                args.push(rust.to_string());
                if let Some(j) = json {
                    members.push(format!("{:?}: {j}", p.2.clone().unwrap_or_else(|| p.0.trim_start_matches("r#").to_string())));
                }
            }
            let mut expect = format!("\"method\": {path:?}");
            if !m.params.is_empty() {
                write!(expect, ", \"parameters\": {{{}}}", members.join(", ")).unwrap();
            }
            match m.kind {
                Kind::More => expect.push_str(", \"more\": true"),
                Kind::Oneway => expect.push_str(", \"oneway\": true"),
                Kind::Plain => {}
            }
            let a = args.join(", ");
            let has_generic = m.params.iter().any(|p| p.1 == Ty::Generic);
            let fish = if has_generic { "::<_, Out, PErr>" } else { "::<Out, PErr>" };
            let (ok_reply, ok_pat) = match m.out {
                // "no parameters" is spelled absent, null or {} in turn
                Out::Unit => (["{}", "{\"parameters\":null}", "{\"parameters\":{}}"][i % 3], "()"),
                Out::Owned => ("{\"parameters\":{\"v\":5}}", "Out { v: 5 }"),
                Out::Borrowed => ("{\"parameters\":{\"s\":\"bo\"}}", "OutB { s: \"bo\" }"),
            };
            writeln!(s, "    {{\n        let expect = json!({{{expect}}});\n        let what = format!(\"{{decl}} with args ({{}})\", r##\"{a}\"##);").unwrap();
            match m.kind {
                Kind::Oneway => {
                    writeln!(s, "        let (wire, mut conn) = conn_with(&[]);\n        let r = complete_or_stall(conn.{}({a}));\n        check_frames(sink, &what, \"plain\", &wire, &[&expect]);\n        check(sink, &what, \"oneway-result\", matches!(r, Some(Ok(()))), &format!(\"{{r:?}}\"));", m.rust_name).unwrap();
                }
                Kind::Plain => {
                    // success / declared error / undeclared error / EOF
                    writeln!(s, "        let (wire, mut conn) = conn_with(&[{ok_reply:?}]);\n        let r = complete_or_stall(conn.{}({a}));\n        check(sink, &what, \"success-mapping\", matches!(r, Some(Ok(Ok({ok_pat})))), &format!(\"{{r:?}}\"));\n        drop(r);\n        check_frames(sink, &what, \"plain\", &wire, &[&expect]);", m.rust_name).unwrap();
                    writeln!(s, "        let (_w, mut conn) = conn_with(&[\"{{\\\"error\\\":\\\"org.c.Bad\\\",\\\"parameters\\\":{{\\\"code\\\":3}}}}\"]);\n        let r = complete_or_stall(conn.{}({a}));\n        check(sink, &what, \"declared-error-mapping\", matches!(r, Some(Ok(Err(PErr::Bad {{ code: 3 }})))), &format!(\"{{r:?}}\"));\n        drop(r);", m.rust_name).unwrap();
                    writeln!(s, "        let (_w, mut conn) = conn_with(&[\"{{\\\"error\\\":\\\"io.other.Thing\\\"}}\"]);\n        let r = complete_or_stall(conn.{}({a}));\n        check(sink, &what, \"undeclared-error-mapping\", matches!(r, Some(Err(_))), &format!(\"{{r:?}}\"));\n        drop(r);", m.rust_name).unwrap();
                    writeln!(s, "        let (w, mut conn) = conn_with(&[]);\n        w.close();\n        let r = complete_or_stall(conn.{}({a}));\n        check(sink, &what, \"eof-mapping\", matches!(r, Some(Err(_))), &format!(\"{{r:?}}\"));\n        drop(r);", m.rust_name).unwrap();
                    // chain-starting and chain-extending forms
                    writeln!(s, "        let (wire, mut conn) = conn_with(&[]);\n        match conn.chain_{}{fish}({a}) {{\n            Ok(chain) => {{ let _ = complete_or_stall(chain.send()).map(|r| r.map(|_| ())); }}\n            Err(e) => check(sink, &what, \"chain-start-refused\", false, &format!(\"{{e:?}}\")),\n        }}\n        check_frames(sink, &what, \"chain-start\", &wire, &[&expect]);", m.rust_name).unwrap();
                    writeln!(s, "        let (wire, mut conn) = conn_with(&[]);\n        match conn.chain_anchor_{t}::<Out, PErr>().and_then(|c| c.{}({a})) {{\n            Ok(chain) => {{ let _ = complete_or_stall(chain.send()).map(|r| r.map(|_| ())); }}\n            Err(e) => check(sink, &what, \"chain-extension-refused\", false, &format!(\"{{e:?}}\")),\n        }}\n        check_frames(sink, &what, \"chain-extension\", &wire, &[&json!({{\"method\": \"org.c.T{t}.Anchor{t}\"}}), &expect]);", m.rust_name).unwrap();
                }
                Kind::More => {
                    let item = |c: &str| match m.out {
                        Out::Unit => match c {
                            "true" if i % 2 == 0 => "{\"continues\":true}".to_string(),
                            "true" => "{\"parameters\":null,\"continues\":true}".to_string(),
                            _ => format!("{{\"parameters\":{{}},\"continues\":{c}}}"),
                        },
                        Out::Owned => format!("{{\"parameters\":{{\"v\":5}},\"continues\":{c}}}"),
                        Out::Borrowed => format!("{{\"parameters\":{{\"s\":\"bo\"}},\"continues\":{c}}}"),
                    };
                    writeln!(
                        s,
                        "        let (wire, mut conn) = conn_with(&[{:?}, {:?}, {:?}]);\n        {{\n            let st = complete_or_stall(conn.{}({a}));\n            match st {{\n                Some(Ok(st)) => {{\n                    let mut st = std::pin::pin!(st);\n                    let mut n = 0;\n                    loop {{\n                        match next_item(st.as_mut()) {{\n                            Some(Some(Ok(Ok({ok_pat})))) => n += 1,\n                            Some(None) => break,\n                            other => {{ check(sink, &what, \"stream-item\", false, &format!(\"item {{n}}: {{other:?}}\")); break; }}\n                        }}\n                        if n > 3 {{ break; }}\n                    }}\n                    check(sink, &what, \"stream-yields-one-item-per-reply\", n == 3, &format!(\"{{n}} items for 3 replies\"));\n                }}\n                other => check(sink, &what, \"stream-start\", false, &format!(\"{{:?}}\", other.map(|r| r.map(|_| ())))),\n            }}\n        }}\n        check_frames(sink, &what, \"plain\", &wire, &[&expect]);",
                        item("true"),
                        item("true"),
                        item("false"),
                        m.rust_name
                    )
                    .unwrap();
                    writeln!(s, "        let (wire, mut conn) = conn_with(&[]);\n        match conn.chain_{}{fish}({a}) {{\n            Ok(chain) => {{ let _ = complete_or_stall(chain.send()).map(|r| r.map(|_| ())); }}\n            Err(e) => check(sink, &what, \"chain-start-refused\", false, &format!(\"{{e:?}}\")),\n        }}\n        check_frames(sink, &what, \"chain-start\", &wire, &[&expect]);", m.rust_name).unwrap();
                    // a final reply that does not decode as the declared output: the stream reports it
                    // and is over - the reply of the next exchange on the connection is not its business
                    if m.out != Out::Unit && c == 0 {
                        let bad = match m.out {
                            Out::Owned => "{\"parameters\":{\"v\":\"not a number\"}}",
                            _ => "{\"parameters\":{\"s\":17}}",
                        };
                        writeln!(
                            s,
                            "        let (_w, mut conn) = conn_with(&[{:?}, {:?}, \"{{\\\"parameters\\\":{{\\\"marker\\\":1}}}}\"]);\n        {{\n            let st = complete_or_stall(conn.{}({a}));\n            if let Some(Ok(st)) = st {{\n                let mut st = std::pin::pin!(st);\n                let mut seen = Vec::new();\n                for _ in 0..6 {{\n                    match next_item(st.as_mut()) {{\n                        Some(Some(Ok(Ok(_)))) => seen.push(\"item\"),\n                        Some(Some(_)) => seen.push(\"error\"),\n                        Some(None) => {{ seen.push(\"end\"); break; }}\n                        None => {{ seen.push(\"pending\"); break; }}\n                    }}\n                }}\n                check(sink, &what, \"stream-with-an-undecodable-final-reply\", seen == [\"item\", \"error\", \"end\"] || seen == [\"item\", \"error\"], &format!(\"{{seen:?}}\"));\n            }}\n        }}\n        let next = complete_or_stall(conn.receive_reply::<serde_json::Value, PErr>());\n        check(sink, &what, \"stream-leaves-the-next-exchange-alone\", matches!(&next, Some(Ok(Ok(r))) if r.parameters().map_or(false, |p| p[\"marker\"] == 1)), &format!(\"{{next:?}}\"));",
                            item("true"),
                            bad,
                            m.rust_name
                        )
                        .unwrap();
                    }
                }
            }
            writeln!(s, "    }}").unwrap();
        }
        writeln!(s, "}}\n").unwrap();
    }
    writeln!(s, "pub const CASES: &[fn(&mut Sink<'_>)] = &[{}];", (0..ms.len()).map(|i| format!("case_{i}")).collect::<Vec<_>>().join(", ")).unwrap();
    writeln!(s, "pub const N_METHODS: usize = {};", ms.len()).unwrap();
    (s, ms.len())
}
