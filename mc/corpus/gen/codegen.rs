//! Build-time generator of the C15 corpus: systematically enumerated Varlink interfaces are run
//! through /repo's `zlink_codegen`; next to each generated module the generator writes test code
//! whose expectations (method path, parameter names, JSON shapes, error names, enum spellings) come
//! from the IDL model alone.  Rust-side names are never predicted: values are built from JSON with the
//! IDL's spellings, and method names are read positionally from the generated trait.

use std::fmt::Write;

#[derive(Clone, Debug)]
pub enum Ty {
    Bool,
    Int,
    Float,
    Str,
    Object,
    Opt(Box<Ty>),
    Arr(Box<Ty>),
    Map(Box<Ty>),
    CustomStruct(usize),
    CustomEnum(usize),
    InlineStruct,
    InlineEnum,
}

impl Ty {
    fn idl(&self, m: &Iface) -> String {
        match self {
            Ty::Bool => "bool".into(),
            Ty::Int => "int".into(),
            Ty::Float => "float".into(),
            Ty::Str => "string".into(),
            Ty::Object => "object".into(),
            Ty::Opt(t) => format!("?{}", t.idl(m)),
            Ty::Arr(t) => format!("[]{}", t.idl(m)),
            Ty::Map(t) => format!("[string]{}", t.idl(m)),
            Ty::CustomStruct(i) => m.structs[*i].0.clone(),
            Ty::CustomEnum(i) => m.enums[*i].0.clone(),
            Ty::InlineStruct => "(x: int, y: ?string)".into(),
            Ty::InlineEnum => "(one, two)".into(),
        }
    }
    /// A JSON value of the declared shape (as `json!` source text).
    fn json(&self, m: &Iface, salt: usize) -> String {
        match self {
            Ty::Bool => (salt % 2 == 0).to_string(),
            Ty::Int => format!("{}", salt as i64 - 5),
            Ty::Float => "1.5".into(),
            Ty::Str => format!("\"s{salt}\""),
            Ty::Object => "{\"any\": [1, \"x\"]}".into(),
            Ty::Opt(t) => t.json(m, salt),
            // collections of nullable elements carry a null
            Ty::Arr(t) if matches!(**t, Ty::Opt(_)) => format!("[{}, null, {}]", t.json(m, salt), t.json(m, salt + 1)),
            Ty::Map(t) if matches!(**t, Ty::Opt(_)) => format!("{{\"k\": {}, \"none\": null}}", t.json(m, salt)),
            Ty::Arr(t) => format!("[{}, {}]", t.json(m, salt), t.json(m, salt + 1)),
            Ty::Map(t) => format!("{{\"k\": {}}}", t.json(m, salt)),
            Ty::CustomStruct(i) => m.struct_json(*i, salt),
            Ty::CustomEnum(i) => format!("{:?}", m.enums[*i].1[salt % m.enums[*i].1.len()]),
            Ty::InlineStruct => "{\"x\": 1, \"y\": \"w\"}".into(),
            Ty::InlineEnum => "\"one\"".into(),
        }
    }
    /// Statements that bind `var` to an argument expression of the parameter type the code
    /// generator declares for this IDL type; returns (prelude, expression).
    fn arg(&self, m: &Iface, var: &str, salt: usize) -> (String, String) {
        let from_json = |rust_ty: &str, json: String| {
            format!("let {var}: {rust_ty} = match serde_json::from_value(json!({json})) {{ Ok(v) => v, Err(e) => {{ sink.fail(\"codegen:idl-spelled-value-not-decodable\", format!(\"interface {{iface}}: argument value `{{}}` does not decode as the generated type {rust_ty}: {{e}}\", json!({json})), json!({{\"interface\": iface}})); break 'method; }} }};\n")
        };
        match self {
            Ty::Bool | Ty::Int | Ty::Float | Ty::Str => (String::new(), self.json(m, salt)),
            Ty::Object | Ty::InlineStruct => (format!("let {var} = json!({});\n", self.json(m, salt)), format!("&{var}")),
            Ty::InlineEnum => (String::new(), "\"one\"".into()),
            Ty::Opt(_) if salt % 2 == 1 => (String::new(), "None".into()),
            Ty::Opt(t) => {
                let (p, e) = t.arg(m, var, salt);
                (p, format!("Some({e})"))
            }
            Ty::Arr(t) => match &**t {
                Ty::Str => (String::new(), format!("&[\"s{salt}\", \"s{}\"][..]", salt + 1)),
                Ty::Int => (String::new(), format!("&[{}i64, {}i64][..]", salt as i64 - 5, salt as i64 - 4)),
                Ty::CustomStruct(i) => (from_json(&format!("Vec<gen::{}>", m.rust_structs[*i]), self.json(m, salt)), format!("&{var}[..]")),
                _ => (from_json("Vec<serde_json::Value>", self.json(m, salt)), format!("&{var}[..]")),
            },
            Ty::Map(t) => match &**t {
                Ty::Str => (format!("let {var} = std::collections::HashMap::from([(\"k\", \"s{salt}\")]);\n"), format!("&{var}")),
                _ => (format!("let {var} = std::collections::HashMap::from([(\"k\", {}i64)]);\n", salt as i64 - 5), format!("&{var}")),
            },
            Ty::CustomStruct(i) => (from_json(&format!("gen::{}", m.rust_structs[*i]), self.json(m, salt)), format!("&{var}")),
            Ty::CustomEnum(i) => (from_json(&format!("gen::{}", m.rust_enums[*i]), self.json(m, salt)), format!("&{var}")),
        }
    }
}

#[derive(Clone, Debug, Default)]
pub struct Iface {
    pub name: String,
    /// Rust names of the generated custom types (filled in after the code generator ran)
    pub rust_structs: Vec<String>,
    pub rust_enums: Vec<String>,
    /// (type name, fields)
    pub structs: Vec<(String, Vec<(String, Ty)>)>,
    pub enums: Vec<(String, Vec<String>)>,
    /// (method name, inputs, outputs)
    pub methods: Vec<(String, Vec<(String, Ty)>, Vec<(String, Ty)>)>,
    pub errors: Vec<(String, Vec<(String, Ty)>)>,
}

impl Iface {
    fn fields_json(&self, f: &[(String, Ty)], salt: usize) -> String {
        format!("{{{}}}", f.iter().enumerate().map(|(j, (n, t))| format!("{n:?}: {}", t.json(self, salt + j))).collect::<Vec<_>>().join(", "))
    }
    fn struct_json(&self, i: usize, salt: usize) -> String {
        self.fields_json(&self.structs[i].1, salt)
    }
    pub fn idl(&self) -> String {
        let fl = |f: &[(String, Ty)]| f.iter().map(|(n, t)| format!("{n}: {}", t.idl(self))).collect::<Vec<_>>().join(", ");
        let mut s = format!("interface {}\n", self.name);
        for (n, f) in &self.structs {
            writeln!(s, "\ntype {n} ({})", fl(f)).unwrap();
        }
        for (n, v) in &self.enums {
            writeln!(s, "\ntype {n} ({})", v.join(", ")).unwrap();
        }
        for (n, i, o) in &self.methods {
            writeln!(s, "\nmethod {n}({}) -> ({})", fl(i), fl(o)).unwrap();
        }
        for (n, f) in &self.errors {
            writeln!(s, "\nerror {n} ({})", fl(f)).unwrap();
        }
        s
    }
}

const METHOD_NAMES: [&str; 10] = ["Get", "GetURL", "Get2FA", "Type", "SetIPv6Addr", "X", "ListAllTheThings", "Match", "DoIt2", "HTTPGet"];
// (the last six are names of locals and members that generated code is likely to use itself)
const FIELD_NAMES: [&str; 22] = ["a", "userName", "user_name", "type", "URL", "x2", "match", "isOK", "fn", "ipV6", "async", "B", "x86_64", "MAX_SIZE", "a_1b", "v1_2_3", "method", "parameters", "call", "reply", "conn", "params"];
const VARIANT_NAMES: [&str; 13] = ["one", "two_three", "Active", "IPv6", "camelCase", "type", "X", "ok2", "x86_64", "MAX_SIZE", "a_b_c9", "v1_2_3", "utf_8"];
const ERROR_NAMES: [&str; 6] = ["NotFound", "NotOK", "E2BIG", "Type", "X", "InvalidURLGiven"];
const TYPE_NAMES: [&str; 5] = ["T", "MyURL", "Ab9", "Type", "IPv6Addr"];
const IFACE_NAMES: [&str; 5] = ["org.c.Plain", "org.c.x-y", "io.c.HTTPApi", "a.b2", "org.c.lower"];

/// Types used only for outputs and struct fields (their parameter spelling is not mirrored here).
fn output_only_types(i: usize) -> Option<Ty> {
    let b = |t: Ty| Box::new(t);
    let all = [
        Ty::Arr(b(Ty::Opt(b(Ty::Str)))),
        Ty::Opt(b(Ty::Arr(b(Ty::Opt(b(Ty::Str)))))),
        Ty::Arr(b(Ty::Arr(b(Ty::Str)))),
        Ty::Map(b(Ty::Arr(b(Ty::Str)))),
        Ty::Arr(b(Ty::Map(b(Ty::Int)))),
        Ty::Map(b(Ty::Opt(b(Ty::Int)))),
        Ty::Arr(b(Ty::Opt(b(Ty::Int)))),
        Ty::Map(b(Ty::Opt(b(Ty::Str)))),
        Ty::Arr(b(Ty::Opt(b(Ty::Bool)))),
        Ty::Opt(b(Ty::Map(b(Ty::Opt(b(Ty::Float)))))),
        Ty::Arr(b(Ty::Opt(b(Ty::InlineStruct)))),
        Ty::Map(b(Ty::Map(b(Ty::Opt(b(Ty::Int)))))),
    ];
    if i % 3 == 0 {
        Some(all[(i / 3) % all.len()].clone())
    } else {
        None
    }
}

fn value_types(i: usize, m: &Iface) -> Ty {
    let base = [Ty::Bool, Ty::Int, Ty::Float, Ty::Str, Ty::Object, Ty::InlineStruct, Ty::InlineEnum];
    let b = |t: Ty| Box::new(t);
    let mut all = base.to_vec();
    all.extend([Ty::Opt(b(Ty::Str)), Ty::Opt(b(Ty::Int)), Ty::Arr(b(Ty::Str)), Ty::Arr(b(Ty::Int)), Ty::Map(b(Ty::Str)), Ty::Map(b(Ty::Int)), Ty::Opt(b(Ty::Arr(b(Ty::Str))))]);
    if !m.structs.is_empty() {
        all.extend([Ty::CustomStruct(0), Ty::Opt(b(Ty::CustomStruct(0))), Ty::Arr(b(Ty::CustomStruct(0)))]);
    }
    if !m.enums.is_empty() {
        all.extend([Ty::CustomEnum(0), Ty::Opt(b(Ty::CustomEnum(0)))]);
    }
    all[i % all.len()].clone()
}

pub fn interfaces(thorough: bool) -> Vec<Iface> {
    let n = if thorough { 400 } else { 60 };
    let mut out = Vec::new();
    for k in 0..n {
        let mut m = Iface { name: format!("{}{k}", IFACE_NAMES[k % IFACE_NAMES.len()]), ..Default::default() };
        // custom types first (fields use only builtin types, so that nothing is recursive)
        if k % 3 != 2 {
            let nf = 1 + k % 3;
            let fields = (0..nf).map(|j| (FIELD_NAMES[(k + j * 5) % FIELD_NAMES.len()].to_string(), output_only_types(k + j).unwrap_or_else(|| value_types(k * 3 + j, &Iface::default())))).collect::<Vec<_>>();
            m.structs.push((TYPE_NAMES[k % TYPE_NAMES.len()].to_string(), dedup_fields(fields)));
        }
        if k % 2 == 0 {
            let nv = 1 + k % 4;
            let mut v: Vec<String> = (0..nv).map(|j| VARIANT_NAMES[(k / 2 + j * 3) % VARIANT_NAMES.len()].to_string()).collect();
            v.dedup();
            v.sort();
            v.dedup();
            m.enums.push((format!("{}E", TYPE_NAMES[(k + 2) % TYPE_NAMES.len()]), v));
        }
        let nm = 1 + k % 3;
        for j in 0..nm {
            let name = format!("{}{}", METHOD_NAMES[(k + j * 3) % METHOD_NAMES.len()], if j == 0 { String::new() } else { format!("{}", (b'A' + j as u8) as char) });
            let ni = (k + j) % 4;
            let no = (k / 2 + j) % 3;
            let ins = dedup_fields((0..ni).map(|p| (FIELD_NAMES[(k + j + p * 7) % FIELD_NAMES.len()].to_string(), value_types(k + j * 5 + p * 11, &m))).collect());
            let outs = dedup_fields((0..no).map(|p| (FIELD_NAMES[(k * 2 + j + p * 5 + 3) % FIELD_NAMES.len()].to_string(), output_only_types(k + j + p + 1).unwrap_or_else(|| value_types(k * 7 + j * 3 + p * 13 + 2, &m)))).collect());
            m.methods.push((name, ins, outs));
        }
        let ne = k % 3;
        for j in 0..ne {
            let nf = (k + j) % 3;
            let fields = dedup_fields((0..nf).map(|p| (FIELD_NAMES[(k + j * 2 + p * 4 + 1) % FIELD_NAMES.len()].to_string(), value_types(k * 5 + j + p * 3 + 1, &Iface::default()))).collect());
            m.errors.push((format!("{}{}", ERROR_NAMES[(k + j * 2) % ERROR_NAMES.len()], if j == 0 { "" } else { "B" }), fields));
        }
        out.push(m);
    }
    out.extend(edge_interfaces());
    out
}

/// Names that can not be escaped as raw identifiers, an interface whose last segment starts with a
/// digit, and everything at once.
fn edge_interfaces() -> Vec<Iface> {
    let s = |x: &str| x.to_string();
    let b = |t: Ty| Box::new(t);
    vec![
        Iface { name: s("a.9b"), methods: vec![(s("M"), vec![(s("a"), Ty::Int)], vec![(s("b"), Ty::Str)])], ..Default::default() },
        Iface {
            name: s("org.edge.reserved"),
            structs: vec![(s("Self"), vec![(s("self"), Ty::Int), (s("crate"), Ty::Str), (s("super"), Ty::Bool)])],
            enums: vec![(s("Crate"), vec![s("crate"), s("self"), s("Super")])],
            methods: vec![
                (s("Self"), vec![(s("self"), Ty::Int), (s("crate"), Ty::CustomStruct(0))], vec![(s("self"), Ty::CustomStruct(0)), (s("super"), Ty::CustomEnum(0))]),
                (s("Crate"), vec![(s("super"), Ty::Opt(b(Ty::CustomEnum(0))))], vec![]),
                (s("Super"), vec![], vec![(s("crate"), Ty::Arr(b(Ty::Opt(b(Ty::Str)))))]),
            ],
            errors: vec![(s("Self"), vec![(s("self"), Ty::Int)]), (s("Crate"), vec![])],
            ..Default::default()
        },
        // enums all of whose values are snake_case, with digits right after an underscore; the same
        // spellings as field and parameter names
        Iface {
            name: s("org.edge.snake"),
            structs: vec![(s("Cpu"), vec![(s("x86_64"), Ty::Bool), (s("level_2"), Ty::Int), (s("utf_8"), Ty::Opt(b(Ty::Str))), (s("arch"), Ty::CustomEnum(0))])],
            enums: vec![(s("Arch"), vec![s("x86_64"), s("aarch64"), s("riscv_64")]), (s("Lvl"), vec![s("level_2"), s("tls1_3"), s("utf_8"), s("plain")]), (s("Caps"), vec![s("MAX_SIZE"), s("MIN_SIZE_2")])],
            methods: vec![
                (s("Find"), vec![(s("arch"), Ty::CustomEnum(0)), (s("lvl_1"), Ty::Opt(b(Ty::CustomEnum(1))))], vec![(s("cpu"), Ty::CustomStruct(0)), (s("caps_2"), Ty::CustomEnum(2))]),
                (s("Find2"), vec![(s("a_1"), Ty::CustomEnum(1)), (s("b_2c"), Ty::CustomEnum(2))], vec![(s("r_1"), Ty::CustomEnum(0))]),
            ],
            errors: vec![(s("No64Bit"), vec![(s("x86_64"), Ty::Bool)])],
            ..Default::default()
        },
        Iface {
            name: s("org.edge.nullable"),
            structs: vec![(s("Slot"), vec![(s("id"), Ty::Int), (s("label"), Ty::Opt(b(Ty::Str)))])],
            methods: vec![
                (s("Quota"), vec![], vec![(s("name"), Ty::Str), (s("xs"), Ty::Arr(b(Ty::Opt(b(Ty::Int))))), (s("by_user"), Ty::Map(b(Ty::Opt(b(Ty::Int)))))]),
                (s("Slots"), vec![], vec![(s("slots"), Ty::Arr(b(Ty::Opt(b(Ty::CustomStruct(0)))))), (s("named"), Ty::Map(b(Ty::Opt(b(Ty::CustomStruct(0))))))]),
                (s("Only"), vec![], vec![(s("xs"), Ty::Arr(b(Ty::Opt(b(Ty::Int)))))]),
                (s("Flags"), vec![], vec![(s("who"), Ty::Str), (s("flags"), Ty::Arr(b(Ty::Opt(b(Ty::Bool))))), (s("ratios"), Ty::Map(b(Ty::Opt(b(Ty::Float)))))]),
            ],
            errors: vec![(s("Full"), vec![(s("free"), Ty::Arr(b(Ty::Opt(b(Ty::Int)))))])],
            ..Default::default()
        },
        Iface {
            name: s("org.edge.kw"),
            structs: vec![(s("Type"), vec![(s("type"), Ty::Str), (s("fn"), Ty::Int), (s("async"), Ty::Opt(b(Ty::Bool))), (s("loop"), Ty::Arr(b(Ty::Int)))])],
            enums: vec![(s("Match"), vec![s("match"), s("type"), s("fn"), s("Loop")])],
            methods: vec![(s("Loop"), vec![(s("while"), Ty::Int), (s("for"), Ty::CustomEnum(0))], vec![(s("in"), Ty::CustomStruct(0)), (s("use"), Ty::Opt(b(Ty::Arr(b(Ty::Opt(b(Ty::Str)))))))]), (s("Move"), vec![], vec![])],
            errors: vec![(s("Mod"), vec![(s("impl"), Ty::Str)]), (s("Dyn"), vec![])],
            ..Default::default()
        },
        // custom types that refer to other custom types (never to themselves): a leaf type per kind
        // of value, a wrapper per way of referring (plain, optional, array, map), and two levels on top
        Iface {
            name: s("org.edge.nested"),
            structs: vec![
                (s("LeafF"), vec![(s("lat"), Ty::Float), (s("lon"), Ty::Float)]),
                (s("LeafO"), vec![(s("any"), Ty::Object)]),
                (s("LeafS"), vec![(s("name"), Ty::Str), (s("kind"), Ty::CustomEnum(0)), (s("n"), Ty::Opt(b(Ty::Int)))]),
                (s("LeafM"), vec![(s("ratios"), Ty::Map(b(Ty::Float))), (s("tags"), Ty::Arr(b(Ty::Str)))]),
                (s("LeafI"), vec![(s("inner"), Ty::InlineStruct), (s("pick"), Ty::InlineEnum)]),
                (s("WrapF"), vec![(s("name"), Ty::Str), (s("position"), Ty::CustomStruct(0))]),
                (s("WrapOptO"), vec![(s("o"), Ty::Opt(b(Ty::CustomStruct(1))))]),
                (s("WrapArrS"), vec![(s("items"), Ty::Arr(b(Ty::CustomStruct(2))))]),
                (s("WrapMapM"), vec![(s("by_name"), Ty::Map(b(Ty::CustomStruct(3))))]),
                (s("WrapI"), vec![(s("i"), Ty::CustomStruct(4)), (s("e"), Ty::Opt(b(Ty::CustomEnum(0))))]),
                (s("WrapEnums"), vec![(s("all"), Ty::Arr(b(Ty::CustomEnum(0)))), (s("named"), Ty::Map(b(Ty::CustomEnum(0))))]),
                (s("Mid"), vec![(s("f"), Ty::CustomStruct(5)), (s("s"), Ty::CustomStruct(7)), (s("m"), Ty::Opt(b(Ty::CustomStruct(8))))]),
                (s("Top"), vec![(s("mid"), Ty::CustomStruct(11)), (s("mids"), Ty::Arr(b(Ty::CustomStruct(11)))), (s("o"), Ty::CustomStruct(6)), (s("i"), Ty::Map(b(Ty::CustomStruct(9))))]),
            ],
            enums: vec![(s("Kind"), vec![s("big"), s("small")])],
            methods: vec![
                (s("Put"), vec![(s("top"), Ty::CustomStruct(12)), (s("f"), Ty::CustomStruct(5))], vec![(s("mid"), Ty::CustomStruct(11))]),
                (s("Get"), vec![(s("e"), Ty::CustomStruct(10))], vec![(s("top"), Ty::CustomStruct(12)), (s("wraps"), Ty::Arr(b(Ty::CustomStruct(5))))]),
                (s("Leaves"), vec![(s("f"), Ty::CustomStruct(0)), (s("s"), Ty::Arr(b(Ty::CustomStruct(2))))], vec![(s("o"), Ty::Opt(b(Ty::CustomStruct(6)))), (s("i"), Ty::CustomStruct(9)), (s("m"), Ty::CustomStruct(8))]),
            ],
            errors: vec![(s("Bad"), vec![(s("where"), Ty::CustomStruct(5)), (s("what"), Ty::Opt(b(Ty::CustomStruct(7))))])],
            ..Default::default()
        },
    ]
}

fn dedup_fields(f: Vec<(String, Ty)>) -> Vec<(String, Ty)> {
    let mut seen = std::collections::BTreeSet::new();
    // two fields that differ only in case / underscores would collide in Rust: the property's
    // quantifier says collision-free
    f.into_iter().filter(|(n, _)| seen.insert(n.to_lowercase().replace('_', ""))).collect()
}

pub struct Generated {
    /// module source per interface (generated code + tests), the combined file that declares them
    pub modules: Vec<(String, String)>,
    pub index: String,
    pub count: usize,
}

/// `codegen(idl text) -> Rust source`, injected by build.rs (which links /repo's zlink_codegen).
/// Several interfaces generated into ONE module (what the command-line tool does for several input
/// files): descriptions with comments in front of `interface`, on members and on fields.
pub const MULTI_IDLS: [&str; 3] = [
    "# Battery state of the machine.\n# (second line)\ninterface org.multi.battery\n\n# one slot\ntype Slot (\n  # its number\n  id: int,\n  label: ?string\n)\n\n# read a slot\nmethod GetSlot(slotId: int) -> (slot: Slot)\n\nerror NoBattery (slotId: int)\n",
    "interface org.multi.plain\n\nmethod Ping() -> ()\n",
    "# The clock.\ninterface org.multi.clock\n\ntype Tick (unixTime: int, level: (low, high))\n\nmethod Now() -> (tick: Tick)\n\n# never in sync\nerror Skewed ()\n",
];

pub fn generate(thorough: bool, dir: &str, codegen: &dyn Fn(&str) -> Result<String, String>) -> Generated {
    let ifaces = interfaces(thorough);
    let mut modules = Vec::new();
    let mut index = String::new();
    let mut cases = Vec::new();
    for (k, m) in ifaces.iter().enumerate() {
        let idl = m.idl();
        let mut s = String::new();
        writeln!(s, "// interface #{k}\n/*\n{idl}\n*/\n#[allow(unused_imports)]\nuse crate::codegen_support::*;").unwrap();
        writeln!(s, "pub const IDL: &str = {idl:?};").unwrap();
        match codegen(&idl) {
            Err(e) => {
                writeln!(s, "pub fn case(sink: &mut Sink<'_>) {{ sink.fail(\"codegen:generator-refuses-valid-interface\", {:?}, json!({{\"interface\": {k}}})); }}", format!("{e}; IDL: {idl}")).unwrap();
            }
            Ok(code) => {
                // method function names, positionally
                let fn_names: Vec<String> = code.lines().filter_map(|l| l.trim().strip_prefix("async fn ").map(|r| r.split('(').next().unwrap_or("").to_string())).collect();
                // the header of inner doc comments at the very top can not be `include`d into a module
                // body and is left out; such a line anywhere else stays (and must not be there)
                let code = code.lines().skip_while(|l| l.starts_with("//!") || l.trim().is_empty()).collect::<Vec<_>>().join("\n");
                // Rust names of the generated custom types, positionally: after the `…Output`
                // structs come the custom types in IDL order, then the error enum
                let decls: Vec<String> = code
                    .lines()
                    .filter_map(|l| l.trim().strip_prefix("pub struct ").or_else(|| l.trim().strip_prefix("pub enum ")))
                    .map(|r| r.split(|c: char| !c.is_alphanumeric() && c != '_').next().unwrap_or("").to_string())
                    .collect();
                let customs: Vec<String> = decls.iter().filter(|d| !d.ends_with("Output") && !d.ends_with("Error")).cloned().collect();
                let rust_struct = |i: usize| customs.get(i).cloned().unwrap_or_else(|| "MissingGeneratedType".into());
                let rust_enum = |i: usize| customs.get(m.structs.len() + i).cloned().unwrap_or_else(|| "MissingGeneratedType".into());
                let mut m2 = m.clone();
                m2.rust_structs = (0..m.structs.len()).map(&rust_struct).collect();
                m2.rust_enums = (0..m.enums.len()).map(&rust_enum).collect();
                let m = &m2;
                writeln!(s, "#[allow(dead_code, unused_imports, non_camel_case_types, non_snake_case, clippy::all)]\npub mod gen {{\n{code}\n}}\n#[allow(unused_imports)]\nuse gen::*;").unwrap();
                writeln!(s, "pub fn case(sink: &mut Sink<'_>) {{\n    let iface = {:?};", m.name).unwrap();
                if fn_names.len() != m.methods.len() {
                    writeln!(s, "    sink.fail(\"codegen:method-missing-from-generated-trait\", format!(\"{{iface}}: {} methods in the IDL, {} in the generated trait\"), json!({{\"interface\": {k}}}));", m.methods.len(), fn_names.len()).unwrap();
                }
                // custom types: IDL-spelled JSON must decode and encode back
                for (i, (tn, _)) in m.structs.iter().enumerate() {
                    for salt in 0..2 {
                        writeln!(s, "    round_trip::<gen::{}>(sink, iface, \"type {tn}\", json!({}));", rust_struct(i), m.struct_json(i, salt)).unwrap();
                    }
                }
                for (i, (tn, vars)) in m.enums.iter().enumerate() {
                    for v in vars {
                        writeln!(s, "    round_trip::<gen::{}>(sink, iface, \"enum {tn} value {v}\", json!({v:?}));", rust_enum(i)).unwrap();
                    }
                }
                // errors
                let err_ty = "ErrorType";
                for (en, f) in &m.errors {
                    let mut j = format!("{{\"error\": \"{}.{en}\"", m.name);
                    if !f.is_empty() {
                        write!(j, ", \"parameters\": {}", m.fields_json(f, 1)).unwrap();
                    }
                    j.push('}');
                    writeln!(s, "    round_trip::<gen::{err_ty}>(sink, iface, \"error {en}\", json!({j}));").unwrap();
                }
                // methods
                for (mi, (mn, ins, outs)) in m.methods.iter().enumerate() {
                    let Some(fname) = fn_names.get(mi) else { continue };
                    writeln!(s, "    'method: {{").unwrap();
                    let mut args = Vec::new();
                    let mut members = Vec::new();
                    for (p, (pn, pt)) in ins.iter().enumerate() {
                        let (prelude, expr) = pt.arg(m, &format!("arg{p}"), mi + p);
                        s.push_str(&prelude.lines().map(|l| format!("        {l}\n")).collect::<String>());
                        args.push(expr);
                        if !(matches!(pt, Ty::Opt(_)) && (mi + p) % 2 == 1) {
                            members.push(format!("{pn:?}: {}", pt.json(m, mi + p)));
                        }
                    }
                    let mut expect = format!("{{\"method\": \"{}.{mn}\"", m.name);
                    if !ins.is_empty() {
                        write!(expect, ", \"parameters\": {{{}}}", members.join(", ")).unwrap();
                    }
                    expect.push('}');
                    let reply = if outs.is_empty() { "{}".to_string() } else { format!("{{\"parameters\": {}}}", m.fields_json(outs, 3)) };
                    writeln!(s, "        let expect = json!({expect});\n        let reply = json!({reply});\n        let (wire, mut conn) = conn_with(&[&reply.to_string()]);").unwrap();
                    writeln!(s, "        let r = complete_or_stall(conn.{fname}({}));", args.join(", ")).unwrap();
                    if outs.is_empty() {
                        writeln!(s, "        check(sink, iface, \"method {mn}: reply decoded\", matches!(r, Some(Ok(Ok(())))), &format!(\"{{r:?}}\"));").unwrap();
                    } else {
                        writeln!(s, "        match &r {{\n            Some(Ok(Ok(out))) => check(sink, iface, \"method {mn}: outputs under the IDL's names\", serde_json::to_value(out).ok().as_ref() == Some(&reply[\"parameters\"]), &format!(\"decoded {{out:?}} from {{reply}}\")),\n            other => check(sink, iface, \"method {mn}: reply decoded\", false, &format!(\"{{other:?}} for reply {{reply}}\")),\n        }}").unwrap();
                    }
                    writeln!(s, "        drop(r);\n        check_call(sink, iface, \"method {mn}\", &wire, &expect);").unwrap();
                    // every declared error comes back as that error
                    if let Some((en, f)) = m.errors.first() {
                        let mut j = format!("{{\"error\": \"{}.{en}\"", m.name);
                        if !f.is_empty() {
                            write!(j, ", \"parameters\": {}", m.fields_json(f, 1)).unwrap();
                        }
                        j.push('}');
                        writeln!(s, "        let (_w, mut conn) = conn_with(&[&json!({j}).to_string()]);\n        let r = complete_or_stall(conn.{fname}({}));\n        check(sink, iface, \"method {mn}: declared error {en} reported\", matches!(r, Some(Ok(Err(_)))), &format!(\"{{r:?}}\"));\n        drop(r);", args.join(", ")).unwrap();
                    }
                    writeln!(s, "        #[allow(unreachable_code)] {{ if false {{ break 'method; }} }}\n    }}").unwrap();
                }
                writeln!(s, "}}").unwrap();
                // the error type's name is read positionally too
                let err_name = code.lines().filter_map(|l| l.trim().strip_prefix("pub enum ")).filter(|r| r.contains("Error")).map(|r| r.split(|c: char| !c.is_alphanumeric() && c != '_').next().unwrap_or("").to_string()).last().unwrap_or_default();
                writeln!(s, "#[allow(dead_code)]\nmod alias {{ pub type ErrorType = super::gen::{err_name}; }}").unwrap();
                s = s.replace("gen::ErrorType", "alias::ErrorType");
            }
        }
        modules.push((format!("iface_{k}.rs"), s));
        writeln!(index, "#[path = \"{dir}/iface_{k}.rs\"]\npub mod iface_{k};").unwrap();
        cases.push(format!("iface_{k}::case"));
    }
    // the multi-interface module: the generated text goes into a file of its own, verbatim
    match codegen("\u{0}multi") {
        Ok(code) => {
            let traits = code.lines().filter(|l| l.trim_start().starts_with("pub trait ")).count();
            modules.push(("multi_gen.rs".to_string(), format!("#![allow(dead_code, unused_imports, non_camel_case_types, non_snake_case, clippy::all)]\n{code}")));
            writeln!(index, "#[path = \"{dir}/multi_gen.rs\"]\npub mod multi_gen;").unwrap();
            writeln!(index, "pub fn case_multi(sink: &mut Sink<'_>) {{\n    check(sink, \"org.multi.*\", \"three interfaces generated into one module: one proxy trait each\", {traits} == 3, \"{traits} traits\");\n}}").unwrap();
        }
        Err(e) => {
            writeln!(index, "pub fn case_multi(sink: &mut Sink<'_>) {{ sink.fail(\"codegen:generator-refuses-valid-interface\", {:?}, json!({{\"interface\": \"multi\"}})); }}", format!("several interfaces into one module: {e}")).unwrap();
        }
    }
    cases.push("case_multi".into());
    writeln!(index, "pub const CASES: &[fn(&mut Sink<'_>)] = &[{}];", cases.join(", ")).unwrap();
    writeln!(index, "pub const IDLS: &[&str] = &[{}];", (0..ifaces.len()).map(|k| format!("iface_{k}::IDL")).collect::<Vec<_>>().join(", ")).unwrap();
    writeln!(index, "pub const N_INTERFACES: usize = {};", ifaces.len()).unwrap();
    Generated { modules, index, count: ifaces.len() }
}
