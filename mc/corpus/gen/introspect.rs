//! Build-time generator of the C16 corpus: structs, enums and error enums with the introspection
//! derives, plus for each the description expected from the generator's own model of the type.

use std::fmt::Write;

/// A field type: Rust spelling, expected Varlink type as an `RType` expression, needs `'a`?
#[derive(Clone)]
pub struct FT {
    pub rust: String,
    pub expect: String,
    pub lifetime: bool,
}

fn leaf_types() -> Vec<FT> {
    let mut v = Vec::new();
    let mut add = |r: &str, e: &str, l: bool| v.push(FT { rust: r.into(), expect: e.into(), lifetime: l });
    add("bool", "RType::Bool", false);
    for t in ["i8", "i16", "i32", "i64", "u8", "u16", "u32", "u64", "isize", "usize"] {
        add(t, "RType::Int", false);
    }
    add("f32", "RType::Float", false);
    add("f64", "RType::Float", false);
    add("String", "RType::String", false);
    add("char", "RType::String", false);
    add("&'a str", "RType::String", true);
    add("()", "RType::Struct(vec![])", false);
    add("Inner", "RType::Custom(\"Inner\".into())", false);
    add("InnerEnum", "RType::Custom(\"InnerEnum\".into())", false);
    add("Anon", "anon_expected()", false);
    v
}

fn wrap(kind: usize, t: &FT) -> Option<FT> {
    let (r, e, l) = (&t.rust, &t.expect, t.lifetime);
    let b = |x: &str| format!("Box::new({x})");
    Some(match kind {
        0 => {
            if r.starts_with("Option<") {
                return None; // directly nested options have no Varlink spelling
            }
            FT { rust: format!("Option<{r}>"), expect: format!("RType::Optional({})", b(e)), lifetime: l }
        }
        1 => FT { rust: format!("Vec<{r}>"), expect: format!("RType::Array({})", b(e)), lifetime: l },
        2 => FT { rust: format!("std::collections::HashSet<{r}>"), expect: format!("RType::Array({})", b(e)), lifetime: l },
        3 => FT { rust: format!("std::collections::BTreeSet<{r}>"), expect: format!("RType::Array({})", b(e)), lifetime: l },
        4 => FT { rust: format!("std::collections::HashMap<String, {r}>"), expect: format!("RType::Map({})", b(e)), lifetime: l },
        5 => FT { rust: format!("std::collections::BTreeMap<String, {r}>"), expect: format!("RType::Map({})", b(e)), lifetime: l },
        6 => FT { rust: format!("std::collections::HashMap<&'a str, {r}>"), expect: format!("RType::Map({})", b(e)), lifetime: true },
        7 => FT { rust: format!("Box<{r}>"), expect: e.clone(), lifetime: l },
        8 => FT { rust: format!("std::rc::Rc<{r}>"), expect: e.clone(), lifetime: l },
        9 => FT { rust: format!("std::sync::Arc<{r}>"), expect: e.clone(), lifetime: l },
        10 => FT { rust: format!("&'a [{r}]"), expect: format!("RType::Array({})", b(e)), lifetime: true },
        _ => return None,
    })
}
const WRAPPERS: usize = 11;

pub fn field_types(thorough: bool) -> Vec<FT> {
    let leaves = leaf_types();
    let mut v = leaves.clone();
    // every wrapper around every leaf
    let mut d1 = Vec::new();
    for k in 0..WRAPPERS {
        for l in &leaves {
            if let Some(t) = wrap(k, l) {
                d1.push(t);
            }
        }
    }
    v.extend(d1.iter().cloned());
    // every pair of wrappers (around a rotating leaf; thorough: around every wrapped leaf of 4 kinds)
    for k1 in 0..WRAPPERS {
        for k2 in 0..WRAPPERS {
            let inner: Vec<&FT> = if thorough { leaves.iter().step_by(5).collect() } else { vec![&leaves[(k1 * 3 + k2) % leaves.len()]] };
            for l in inner {
                if let Some(t) = wrap(k2, l).and_then(|t| wrap(k1, &t)) {
                    v.push(t);
                }
            }
        }
    }
    // depth 3
    for k in 0..WRAPPERS {
        let l = &leaves[(k * 7) % leaves.len()];
        if let Some(t) = wrap((k + 1) % WRAPPERS, l).and_then(|t| wrap((k + 4) % WRAPPERS, &t)).and_then(|t| wrap(k, &t)) {
            v.push(t);
        }
    }
    v
}

const FIELD_NAMES: [&str; 10] = ["a", "sha_1", "x2", "r#type", "camelCase", "block_0_size", "r#match", "the_last_one", "user_name", "B"];
const DOCS: [&str; 3] = ["A doc line", "second: (with, punctuation) -> #", "trailing space "];

/// The ways a doc comment can be attached to an item.  Returns the source text and the comments the
/// derive must report (as Rust expressions), one per doc line.
const DOC_FORMS: usize = 7;
fn doc_src(form: usize, lines: &[&str], indent: &str) -> (String, Vec<String>) {
    let mut src = String::new();
    let mut expect: Vec<String> = lines.iter().map(|l| format!("{l:?}.trim().to_string()")).collect();
    if lines.is_empty() {
        return (src, expect);
    }
    match form % DOC_FORMS {
        // `/// text`
        0 => lines.iter().for_each(|l| writeln!(src, "{indent}/// {l}").unwrap()),
        // `#[doc = "text"]`
        1 => lines.iter().for_each(|l| writeln!(src, "{indent}#[doc = {l:?}]").unwrap()),
        // a doc attribute without text in front
        2 => {
            writeln!(src, "{indent}#[doc(alias = \"al\")]").unwrap();
            lines.iter().for_each(|l| writeln!(src, "{indent}/// {l}").unwrap());
        }
        // ... or after the first line
        3 => {
            writeln!(src, "{indent}/// {}", lines[0]).unwrap();
            writeln!(src, "{indent}#[doc(hidden)]").unwrap();
            lines[1..].iter().for_each(|l| writeln!(src, "{indent}/// {l}").unwrap());
        }
        // other attributes between the lines
        4 => lines.iter().for_each(|l| writeln!(src, "{indent}#[allow(unused)]\n{indent}/// {l}").unwrap()),
        // an empty doc line first
        5 => {
            writeln!(src, "{indent}///").unwrap();
            lines.iter().for_each(|l| writeln!(src, "{indent}/// {l}").unwrap());
            expect.insert(0, "String::new()".into());
        }
        // one-line block comments
        _ => lines.iter().for_each(|l| writeln!(src, "{indent}/** {l} */").unwrap()),
    }
    (src, expect)
}

fn unraw(n: &str) -> &str {
    n.strip_prefix("r#").unwrap_or(n)
}

pub fn generate(thorough: bool) -> (String, usize) {
    let types = field_types(thorough);
    let mut s = String::new();
    let mut cases: Vec<String> = Vec::new();
    let mut n_types = 0usize;
    writeln!(s, "// generated by corpus/gen/introspect.rs — {} field types", types.len()).unwrap();
    // structs: consecutive groups of 0..6 fields
    let mut i = 0usize;
    let mut k = 0usize;
    let sizes = [3usize, 6, 1, 4, 0, 5, 2];
    let mut struct_names: Vec<(String, bool)> = Vec::new();
    while i < types.len() {
        let n = sizes[k % sizes.len()].min(types.len() - i);
        let fields = &types[i..i + n];
        i += n;
        let lt = fields.iter().any(|f| f.lifetime);
        let g = if lt { "<'a>" } else { "" };
        let type_docs: Vec<&str> = if k % 3 == 0 { vec![DOCS[k % 3], DOCS[(k + 1) % 3]] } else if k % 3 == 1 { vec![DOCS[1]] } else { vec![] };
        let (type_doc_src, type_doc_expect) = doc_src(k, &type_docs, "");
        let field_docs: Vec<(String, Vec<String>)> = (0..fields.len()).map(|j| if (j + k) % 2 == 0 { doc_src(k / 2 + j, &[DOCS[(j + k) % 3]], "    ") } else { (String::new(), vec![]) }).collect();
        for (prefix, derive) in [("An", "Type"), ("Cu", "CustomType")] {
            s.push_str(&type_doc_src);
            writeln!(s, "#[derive(zlink_core::introspect::{derive})]\n#[zlink(crate = \"zlink_core\")]\n#[allow(dead_code, non_snake_case)]\npub struct {prefix}{k}{g} {{").unwrap();
            for (j, f) in fields.iter().enumerate() {
                s.push_str(&field_docs[j].0);
                writeln!(s, "    pub {}: {},", FIELD_NAMES[j], f.rust).unwrap();
            }
            writeln!(s, "}}").unwrap();
        }
        let fields_expr: Vec<String> = fields.iter().enumerate().map(|(j, f)| format!("RField {{ comments: vec![{}], name: {:?}.into(), ty: {} }}", field_docs[j].1.join(", "), unraw(FIELD_NAMES[j]), f.expect)).collect();
        let docs_expr = type_doc_expect.join(", ");
        writeln!(
            s,
            "pub fn case_struct_{k}(sink: &mut Sink<'_>) {{\n    let fields = vec![{}];\n    check_type(sink, \"An{k}\", <An{k} as Type>::TYPE, &RType::Struct(fields.clone()));\n    check_type(sink, \"Cu{k} as Type\", <Cu{k} as Type>::TYPE, &RType::Custom(\"Cu{k}\".into()));\n    check_custom(sink, \"Cu{k}\", <Cu{k} as CustomType>::CUSTOM_TYPE, &RMember {{ comments: vec![{docs_expr}], name: \"Cu{k}\".into(), kind: RKind::TypeStruct(fields) }});\n}}",
            fields_expr.join(", ")
        )
        .unwrap();
        cases.push(format!("case_struct_{k}"));
        struct_names.push((format!("{k}"), lt));
        n_types += 2;
        k += 1;
    }
    // enums
    let nenums = if thorough { 24 } else { 8 };
    for e in 0..nenums {
        let nv = 1 + e % 4;
        let vnames = ["Alpha", "beta_gamma", "X9", "lowerCamel"];
        let (enum_doc_src, enum_doc_expect) = if e % 2 == 0 { doc_src(e / 2 + 1, &[DOCS[e % 3]], "") } else { (String::new(), vec![]) };
        let var_docs: Vec<(String, Vec<String>)> = (0..nv).map(|v| if (v + e) % 3 == 0 { doc_src(e + v + 2, &[DOCS[(v + e) % 3], DOCS[(v + e + 1) % 3]][..1 + (e / 3) % 2], "    ") } else { (String::new(), vec![]) }).collect();
        for (prefix, derive) in [("EnA", "Type"), ("EnC", "CustomType")] {
            s.push_str(&enum_doc_src);
            writeln!(s, "#[derive(zlink_core::introspect::{derive})]\n#[zlink(crate = \"zlink_core\")]\n#[allow(dead_code, non_camel_case_types)]\npub enum {prefix}{e} {{").unwrap();
            for v in 0..nv {
                s.push_str(&var_docs[v].0);
                writeln!(s, "    {},", vnames[v]).unwrap();
            }
            writeln!(s, "}}").unwrap();
        }
        let vars: Vec<String> = (0..nv).map(|v| format!("RVariant {{ comments: vec![{}], name: {:?}.into() }}", var_docs[v].1.join(", "), vnames[v])).collect();
        let docs_expr = enum_doc_expect.join(", ");
        writeln!(
            s,
            "pub fn case_enum_{e}(sink: &mut Sink<'_>) {{\n    let vars = vec![{}];\n    check_type(sink, \"EnA{e}\", <EnA{e} as Type>::TYPE, &RType::Enum(vars.clone()));\n    check_type(sink, \"EnC{e} as Type\", <EnC{e} as Type>::TYPE, &RType::Custom(\"EnC{e}\".into()));\n    check_custom(sink, \"EnC{e}\", <EnC{e} as CustomType>::CUSTOM_TYPE, &RMember {{ comments: vec![{docs_expr}], name: \"EnC{e}\".into(), kind: RKind::TypeEnum(vars) }});\n}}",
            vars.join(", ")
        )
        .unwrap();
        cases.push(format!("case_enum_{e}"));
        n_types += 2;
    }
    // error enums: unit / struct / single-tuple variants, fields from the type list
    let nerr = if thorough { types.len() / 3 } else { types.len() / 9 };
    for e in 0..nerr {
        let f1 = &types[(e * 3) % types.len()];
        let f2 = &types[(e * 3 + 1) % types.len()];
        let f3 = &types[(e * 3 + 2) % types.len()];
        let lt = f1.lifetime || f2.lifetime || f3.lifetime;
        let g = if lt { "<'a>" } else { "" };
        let an = &struct_names[e % struct_names.len()];
        let an_g = if an.1 { "<'static>" } else { "" };
        writeln!(s, "#[derive(zlink_core::introspect::ReplyError)]\n#[zlink(crate = \"zlink_core\")]\n#[allow(dead_code, non_snake_case)]\npub enum Er{e}{g} {{").unwrap();
        let (d_nf, x_nf) = doc_src(e, &[DOCS[e % 3]], "    ");
        let (d_code, x_code) = doc_src(e + 3, &[DOCS[(e + 1) % 3]], "        ");
        let (d_wr, x_wr) = doc_src(e + 5, &[DOCS[(e + 2) % 3]], "    ");
        writeln!(s, "{d_nf}    NotFound,").unwrap();
        writeln!(s, "    Detailed {{\n{d_code}        code: {},\n        r#type: {},\n    }},", f1.rust, f2.rust).unwrap();
        writeln!(s, "{d_wr}    Wrapped(An{}{an_g}),", an.0).unwrap();
        // `Other` reuses the field name `code` of `Detailed` with another type and another comment
        writeln!(s, "    Other {{\n        /// code of the other kind\n        code: {},\n    }},\n    Plain,\n}}", f3.rust).unwrap();
        writeln!(
            s,
            "pub fn case_error_{e}(sink: &mut Sink<'_>) {{\n    let wrapped = match lift_type(<An{} as Type>::TYPE) {{ RType::Struct(f) => f, other => {{ sink.fail(\"introspect:harness\", format!(\"{{other:?}}\"), json!({{}})); return; }} }};\n    let expect = vec![\n        RMember {{ comments: vec![{}], name: \"NotFound\".into(), kind: RKind::Error(vec![]) }},\n        RMember {{ comments: vec![], name: \"Detailed\".into(), kind: RKind::Error(vec![RField {{ comments: vec![{}], name: \"code\".into(), ty: {} }}, RField {{ comments: vec![], name: \"type\".into(), ty: {} }}]) }},\n        RMember {{ comments: vec![{}], name: \"Wrapped\".into(), kind: RKind::Error(wrapped) }},\n        RMember {{ comments: vec![], name: \"Other\".into(), kind: RKind::Error(vec![RField {{ comments: vec![\"code of the other kind\".into()], name: \"code\".into(), ty: {} }}]) }},\n        RMember {{ comments: vec![], name: \"Plain\".into(), kind: RKind::Error(vec![]) }},\n    ];\n    check_errors(sink, \"Er{e}\", <Er{e} as ReplyError>::VARIANTS, &expect);\n}}",
            an.0,
            x_nf.join(", "),
            x_code.join(", "),
            f1.expect,
            f2.expect,
            x_wr.join(", "),
            f3.expect
        )
        .unwrap();
        cases.push(format!("case_error_{e}"));
        n_types += 1;
    }
    // interfaces assembled from derived descriptions: groups of 3 custom structs + 1 custom enum + 1 error enum
    let nif = (struct_names.len() / 3).min(if thorough { 200 } else { 30 });
    for f in 0..nif {
        let cus: Vec<String> = (0..3).map(|j| format!("<Cu{} as CustomType>::CUSTOM_TYPE", struct_names[f * 3 + j].0)).collect();
        let en = f % nenums;
        let er = f % nerr.max(1);
        writeln!(
            s,
            "pub fn case_interface_{f}(sink: &mut Sink<'_>) {{\n    static TYPES: &[&idl::CustomType<'static>] = &[{}, <EnC{en} as CustomType>::CUSTOM_TYPE];\n    static DOC: idl::Comment<'static> = idl::Comment::new(\"assembled from derives\");\n    static DOCS: &[&idl::Comment<'static>] = &[&DOC];\n    let iface = idl::Interface::new(\"org.c.I{f}\", &[], TYPES, <Er{er} as ReplyError>::VARIANTS, DOCS);\n    check_interface(sink, \"I{f}\", &iface);\n}}",
            cus.join(", ")
        )
        .unwrap();
        cases.push(format!("case_interface_{f}"));
    }
    // fields that carry serde attributes which do not take them off the wire (the type also derives
    // the serde traits): they are fields like any other
    writeln!(
        s,
        "#[derive(serde::Serialize, serde::Deserialize, zlink_core::introspect::Type)]\n#[zlink(crate = \"zlink_core\")]\n#[allow(dead_code)]\npub struct SerdeAttrsT {{\n    pub pattern: String,\n    #[serde(skip_serializing_if = \"Option::is_none\")]\n    pub limit: Option<i64>,\n    #[serde(default, skip_serializing_if = \"Vec::is_empty\")]\n    pub tags: Vec<String>,\n    #[serde(skip_serializing_if = \"Option::is_none\", default)]\n    pub deep: Option<bool>,\n    #[serde(default)]\n    pub exact: bool,\n}}\n#[derive(serde::Serialize, serde::Deserialize, zlink_core::introspect::CustomType)]\n#[zlink(crate = \"zlink_core\")]\n#[allow(dead_code)]\npub struct SerdeAttrsC {{\n    #[serde(skip_serializing_if = \"Option::is_none\")]\n    pub first: Option<String>,\n    pub n: u32,\n    #[serde(default, skip_serializing_if = \"std::collections::HashMap::is_empty\")]\n    pub last: std::collections::HashMap<String, f64>,\n}}"
    )
    .unwrap();
    writeln!(
        s,
        "pub fn case_serde_attrs(sink: &mut Sink<'_>) {{\n    let f = |n: &str, ty: RType| RField {{ comments: vec![], name: n.into(), ty }};\n    let fields = vec![f(\"pattern\", RType::String), f(\"limit\", RType::Optional(Box::new(RType::Int))), f(\"tags\", RType::Array(Box::new(RType::String))), f(\"deep\", RType::Optional(Box::new(RType::Bool))), f(\"exact\", RType::Bool)];\n    check_type(sink, \"SerdeAttrsT\", <SerdeAttrsT as Type>::TYPE, &RType::Struct(fields));\n    let fields = vec![f(\"first\", RType::Optional(Box::new(RType::String))), f(\"n\", RType::Int), f(\"last\", RType::Map(Box::new(RType::Float)))];\n    check_custom(sink, \"SerdeAttrsC\", <SerdeAttrsC as CustomType>::CUSTOM_TYPE, &RMember {{ comments: vec![], name: \"SerdeAttrsC\".into(), kind: RKind::TypeStruct(fields) }});\n}}"
    )
    .unwrap();
    cases.push("case_serde_attrs".into());
    n_types += 2;
    // doc comments that span several lines in one attribute (block comments, multi-line strings):
    // each line is one comment line of the description, so that the rendered interface parses back
    writeln!(
        s,
        "/** first line\n second line */\n#[derive(zlink_core::introspect::CustomType)]\n#[zlink(crate = \"zlink_core\")]\n#[allow(dead_code)]\npub struct BlockDoc {{\n    /** on a field,\n        two lines */\n    pub x: u8,\n    #[doc = \"string with\\na line break\"]\n    pub y: bool,\n}}\n/// e\n#[derive(zlink_core::introspect::CustomType)]\n#[zlink(crate = \"zlink_core\")]\n#[allow(dead_code)]\npub enum BlockDocEnum {{\n    Only,\n}}"
    )
    .unwrap();
    writeln!(
        s,
        "pub fn case_blockdoc(sink: &mut Sink<'_>) {{\n    let fields = vec![RField {{ comments: vec![\"on a field,\".into(), \"two lines\".into()], name: \"x\".into(), ty: RType::Int }}, RField {{ comments: vec![\"string with\".into(), \"a line break\".into()], name: \"y\".into(), ty: RType::Bool }}];\n    check_custom(sink, \"BlockDoc\", <BlockDoc as CustomType>::CUSTOM_TYPE, &RMember {{ comments: vec![\"first line\".into(), \"second line\".into()], name: \"BlockDoc\".into(), kind: RKind::TypeStruct(fields) }});\n    static TYPES: &[&idl::CustomType<'static>] = &[<BlockDoc as CustomType>::CUSTOM_TYPE, <BlockDocEnum as CustomType>::CUSTOM_TYPE];\n    let iface = idl::Interface::new(\"org.c.BlockDoc\", &[], TYPES, &[], &[]);\n    check_interface(sink, \"BlockDoc\", &iface);\n}}"
    )
    .unwrap();
    cases.push("case_blockdoc".into());
    n_types += 2;
    // inline (anonymous) struct and enum types, as the `Type` derive describes them - with the doc
    // comments of their fields - used NESTED in an interface: as a method parameter, inside `?` / `[]`
    // / `[string]`, as an error field; the assembled interface renders to text that parses back equal
    {
        let n_inline = struct_names.len().min(if thorough { 80 } else { 20 });
        for k in 0..n_inline {
            let k = struct_names[k].0.clone();
            let en = 0;
            writeln!(
                s,
                "pub fn case_inline_nested_{k}(sink: &mut Sink<'_>) {{\n    let t: &'static idl::Type<'static> = <An{k} as Type>::TYPE;\n    let e: &'static idl::Type<'static> = <EnA{en} as Type>::TYPE;\n    let p = |name: &'static str, ty: idl::Type<'static>| idl::Parameter::new_owned(name, ty, vec![]);\n    let m = idl::Method::new_owned(\"Put\", vec![p(\"plain\", t.clone()), p(\"opt\", idl::Type::Optional(idl::TypeRef::new(t))), p(\"pick\", e.clone())], vec![p(\"list\", idl::Type::Array(idl::TypeRef::new(t))), p(\"named\", idl::Type::Map(idl::TypeRef::new(t)))], vec![]);\n    let er = idl::Error::new_owned(\"Bad\", vec![idl::Field::new_owned(\"place\", t.clone(), vec![])], vec![]);\n    let iface = idl::Interface::new_owned(\"org.c.Inline{k}\", vec![m], vec![], vec![er], vec![]);\n    check_interface(sink, \"Inline{k}\", &iface);\n}}"
            )
            .unwrap();
            cases.push(format!("case_inline_nested_{k}"));
        }
    }
    // long member lists: an enum of 14 variants and a struct of 10 fields with long names - their
    // one-line rendering is far wider than any line width somebody might wrap at
    {
        let variants: Vec<String> = (0..14).map(|i| format!("VariantWithALongName{i}")).collect();
        let fields: Vec<String> = (0..10).map(|i| format!("field_with_a_long_name_{i}")).collect();
        writeln!(s, "#[derive(zlink_core::introspect::CustomType)]\n#[zlink(crate = \"zlink_core\")]\n#[allow(dead_code)]\npub enum WideEnum {{\n{}\n}}", variants.iter().map(|v| format!("    {v},")).collect::<Vec<_>>().join("\n")).unwrap();
        writeln!(s, "#[derive(zlink_core::introspect::CustomType)]\n#[zlink(crate = \"zlink_core\")]\n#[allow(dead_code)]\npub struct WideStruct {{\n{}\n}}", fields.iter().enumerate().map(|(i, f)| format!("    pub {f}: {},", if i % 2 == 0 { "String" } else { "u32" })).collect::<Vec<_>>().join("\n")).unwrap();
        writeln!(
            s,
            "pub fn case_wide(sink: &mut Sink<'_>) {{\n    let vars: Vec<RVariant> = vec![{}];\n    check_custom(sink, \"WideEnum\", <WideEnum as CustomType>::CUSTOM_TYPE, &RMember {{ comments: vec![], name: \"WideEnum\".into(), kind: RKind::TypeEnum(vars) }});\n    let fields = vec![{}];\n    check_custom(sink, \"WideStruct\", <WideStruct as CustomType>::CUSTOM_TYPE, &RMember {{ comments: vec![], name: \"WideStruct\".into(), kind: RKind::TypeStruct(fields) }});\n    static TYPES: &[&idl::CustomType<'static>] = &[<WideEnum as CustomType>::CUSTOM_TYPE, <WideStruct as CustomType>::CUSTOM_TYPE];\n    let iface = idl::Interface::new(\"org.c.Wide\", &[], TYPES, &[], &[]);\n    check_interface(sink, \"Wide\", &iface);\n}}",
            variants.iter().map(|v| format!("RVariant {{ comments: vec![], name: \"{v}\".into() }}")).collect::<Vec<_>>().join(", "),
            fields.iter().enumerate().map(|(i, f)| format!("RField {{ comments: vec![], name: \"{f}\".into(), ty: {} }}", if i % 2 == 0 { "RType::String" } else { "RType::Int" })).collect::<Vec<_>>().join(", ")
        )
        .unwrap();
        cases.push("case_wide".into());
        n_types += 2;
    }
    writeln!(s, "pub const CASES: &[fn(&mut Sink<'_>)] = &[{}];", cases.join(", ")).unwrap();
    writeln!(s, "pub const N_TYPES: usize = {n_types};").unwrap();
    (s, n_types)
}
