//! C08 / C09 / C10 — model checking of `Server::run` over a scripted listener.
//!
//! Every execution is one *event history*: the explorer picks, step by step, the next environment
//! event among the enabled ones (a client connects; a client's next burst of calls arrives — whole,
//! or cut at a byte position with the rest arriving later; a stream item is produced; a stream ends;
//! a client closes; a fault strikes a connection) and whether the server task is polled right away
//! or only after further events (batching).  After every poll-to-quiescence the output of every
//! connection is compared with a per-connection sequential reference model.

use crate::common::{replay_dfs, Replayed, Tier};
use serde_json::{json, Value};
use simnet::svc::{Handled, SvcShared, TestSvc};
use simnet::{show, ReadPolicy, ScriptListener, Task, Wire};
use std::collections::{BTreeSet, VecDeque};
use std::future::Future;
use std::pin::Pin;
use std::task::Poll;
use xplore::report::Report;
use xplore::{explore, Config, Ctx, Harness, Verdict, H64};
use zlink_core::Server;

#[derive(Clone, Copy, Debug, PartialEq, Eq)]
pub enum CK {
    /// plain call, answered with a reply
    P,
    /// oneway plain call
    O,
    /// call answered with an error
    F,
    /// oneway call that would be answered with an error
    Of,
    /// streaming call: (number of items, ends?)
    W(u8, bool),
    /// oneway call that the service answers with a stream: gets nothing, the connection carries on
    Ow,
    /// plain call of about 350 bytes: does not fit the initial receive buffer
    B,
    /// plain call of about 5 KB: the receive buffer has to grow some twenty times for it
    H,
    /// plain call with, in front, an unknown member whose 70-character name is spelled with a JSON
    /// escape: an ordinary call to the service
    X,
}

#[derive(Clone, Debug)]
pub struct CallSpec {
    pub kind: CK,
    pub id: u32,
    pub frame: Vec<u8>, // including the NUL
}

pub fn call_spec(kind: CK, id: u32) -> CallSpec {
    let v = match kind {
        CK::P => json!({"method": "t.Plain", "parameters": {"n": id, "tag": format!("t\u{e4}g-{id}")}}),
        CK::O => json!({"method": "t.Plain", "parameters": {"n": id, "tag": format!("t\u{e4}g-{id}")}, "oneway": true}),
        CK::F => json!({"method": "t.Fail", "parameters": {"n": id}}),
        CK::Of => json!({"oneway": true, "method": "t.Fail", "parameters": {"n": id}}),
        CK::W(..) => json!({"method": "t.Watch", "parameters": {"k": id}, "more": true}),
        CK::Ow => json!({"method": "t.Watch", "parameters": {"k": id}, "oneway": true}),
        CK::B => json!({"method": "t.Plain", "parameters": {"n": id, "tag": big_tag(id)}}),
        CK::H => json!({"method": "t.Plain", "parameters": {"n": id, "tag": huge_tag(id)}}),
        CK::X => json!({"method": "t.Plain", "parameters": {"n": id, "tag": format!("t\u{e4}g-{id}")}}),
    };
    let mut frame = serde_json::to_vec(&v).unwrap();
    if kind == CK::X {
        let mut f = b"{\"\\u0078-unknown-member-with-a-rather-long-name-that-goes-on-and-on-0123456789\":[1],".to_vec();
        f.extend_from_slice(&frame[1..]);
        frame = f;
    }
    frame.push(0);
    CallSpec { kind, id, frame }
}

fn big_tag(id: u32) -> String {
    format!("big-{id}-{}", "\u{e4}bcdefghi".repeat(30))
}

fn huge_tag(id: u32) -> String {
    format!("huge-{id}-{}", "\u{e4}bcdefghi".repeat(500))
}

fn norm(mut v: Value) -> Value {
    // `continues` absent and `continues: false` mean the same
    if v.get("continues") == Some(&Value::Bool(false)) {
        v.as_object_mut().unwrap().remove("continues");
    }
    v
}

fn expected_reply(c: &CallSpec) -> Option<Value> {
    match c.kind {
        CK::P | CK::X => Some(json!({"parameters": {"n": c.id, "tag": format!("t\u{e4}g-{}", c.id)}})),
        CK::F => Some(json!({"error": "t.Failed", "parameters": {"n": c.id}})),
        CK::B => Some(json!({"parameters": {"n": c.id, "tag": big_tag(c.id)}})),
        CK::H => Some(json!({"parameters": {"n": c.id, "tag": huge_tag(c.id)}})),
        CK::O | CK::Of | CK::W(..) | CK::Ow => None,
    }
}

/// Item `i` of stream `k` with the `continues` flag the service gives it: `Some(true)`,
/// `Some(false)` or none at all - the server passes on whatever the service chose.
fn stream_item(k: u32, i: usize, continues: Option<bool>) -> (zlink_core::Reply<simnet::svc::Out>, Value) {
    let out = simnet::svc::Out { n: k * 10 + i as u32, tag: format!("item-{k}-{i}") };
    let r = zlink_core::Reply::new(Some(out.clone())).set_continues(continues);
    let mut v = json!({"parameters": {"n": out.n, "tag": out.tag}});
    if continues == Some(true) {
        v["continues"] = json!(true);
    }
    (r, v)
}

#[derive(Clone, Copy, Debug, PartialEq, Eq)]
pub enum Fault {
    Garbage,
    TruncatedThenEof,
    EofMidBurst,
    Eof,
    ReadError,
    WriteError,
    UnknownMethod,
    WrongTypes,
    /// an unterminated frame larger than the buffer limit (only with the lowered limit of the
    /// `zlink_verif_small_buf` build, where it is 4096 bytes)
    Oversized,
    /// about 700 bytes of unbalanced JSON, three-byte characters throughout at alignment 0..3
    LongGarbage(u8),
    /// a well-formed call of about 700 bytes for a method the service does not have
    LongUnknownMethod(u8),
    /// a well-formed call of about 700 bytes whose parameters have the wrong types
    LongWrongTypes(u8),
    /// a call whose string parameter holds bytes that are not UTF-8
    BadUtf8,
    /// a call for an unknown method with, in front, an unknown member whose 70-character name is
    /// spelled with a JSON escape
    LongEscapedMember,
}
/// Undecodable frames that differ from the short ASCII ones in size (beyond two buffer steps) and
/// content (valid UTF-8 made of three-byte characters, with one alignment per residue so that any
/// byte offset falls inside a character for some of them; bytes that are not UTF-8 at all).
pub const CONTENT_FAULTS: [Fault; 11] = [
    Fault::LongEscapedMember,
    Fault::LongGarbage(0),
    Fault::LongGarbage(1),
    Fault::LongGarbage(2),
    Fault::LongUnknownMethod(0),
    Fault::LongUnknownMethod(1),
    Fault::LongUnknownMethod(2),
    Fault::LongWrongTypes(0),
    Fault::LongWrongTypes(1),
    Fault::LongWrongTypes(2),
    Fault::BadUtf8,
];
fn euros(align: u8) -> String {
    format!("{}{}", "x".repeat(align as usize), "\u{20ac}".repeat(230))
}
#[cfg(not(zlink_verif_small_buf))]
pub const ALL_FAULTS: [Fault; 8] = [Fault::Garbage, Fault::TruncatedThenEof, Fault::EofMidBurst, Fault::Eof, Fault::ReadError, Fault::WriteError, Fault::UnknownMethod, Fault::WrongTypes];
#[cfg(zlink_verif_small_buf)]
pub const ALL_FAULTS: [Fault; 9] = [Fault::Garbage, Fault::TruncatedThenEof, Fault::EofMidBurst, Fault::Eof, Fault::ReadError, Fault::WriteError, Fault::UnknownMethod, Fault::WrongTypes, Fault::Oversized];

#[derive(Clone, Copy, Debug, PartialEq, Eq)]
enum Taint {
    Healthy,
    /// output must stay a prefix of the model output
    PrefixOnly,
    /// the server may have answered the bad frame with anything: only what was checked before counts
    Unconstrained,
}

pub struct ConnM {
    pub wire: Wire,
    pub sent_bytes: usize,
    /// rest of a cut burst: bytes still to arrive, calls that become complete when they do
    rest: Option<(Vec<u8>, Vec<CallSpec>)>,
    queue: VecDeque<CallSpec>,
    streaming: Option<u32>,
    pub expected: Vec<Value>,
    pub handled: Vec<(u32, char, bool)>,
    pub ncalls: u32,
    taint: Taint,
    checked_upto: usize,
    closed: bool,
    /// for every call: (id, service-log length when it became complete on the wire)
    pub complete_at: Vec<(u32, usize)>,
}

#[derive(Clone, Debug)]
pub struct StreamM {
    pub k: u32,
    pub conn: usize,
    pub items: u8,
    pub ends: bool,
    pub produced: u8,
    pub ended: bool,
}

#[derive(Clone, Debug, PartialEq)]
pub enum Ev {
    Connect,
    Send(usize, usize),
    Rest(usize),
    Produce(u32),
    End(u32),
    Close(usize),
    Fault(usize, Fault),
}

pub struct Sim<'a> {
    pub cx: &'a Ctx,
    pub listener: ScriptListener,
    pub conns: Vec<ConnM>,
    pub streams: Vec<StreamM>,
    pub shared: SvcShared,
    task: Task,
    fut: Pin<Box<dyn Future<Output = zlink_core::Result<()>>>>,
    pub short_reads: bool,
    pub delay_polls: bool,
    pub polls_to_quiescence: usize,
    pub hash: H64,
}

pub type Fail = (String, String);

impl<'a> Sim<'a> {
    pub fn new(cx: &'a Ctx, short_reads: bool, delay_polls: bool) -> Sim<'a> {
        let listener = ScriptListener::new();
        let (svc, shared) = TestSvc::new();
        let server = Server::new(listener.clone(), svc);
        let fut: Pin<Box<dyn Future<Output = zlink_core::Result<()>>>> = Box::pin(server.run());
        Sim { cx, listener, conns: vec![], streams: vec![], shared, task: Task::new(), fut, short_reads, delay_polls, polls_to_quiescence: 0, hash: H64::new() }
    }

    pub fn connect(&mut self) -> usize {
        let i = self.conns.len();
        let wire = Wire::new(i, Some(self.cx.clone()));
        if self.short_reads {
            let mut w = wire.0.borrow_mut();
            w.read_policy = ReadPolicy::PartitionDev;
            w.cut_set = Some(BTreeSet::new());
            // a write may find the transport not ready once (deviation), then goes through
            w.write_pend_dev = true;
        }
        self.listener.connect(wire.clone());
        self.conns.push(ConnM {
            wire,
            sent_bytes: 0,
            rest: None,
            queue: VecDeque::new(),
            streaming: None,
            expected: vec![],
            handled: vec![],
            ncalls: 0,
            taint: Taint::Healthy,
            checked_upto: 0,
            closed: false,
            complete_at: vec![],
        });
        i
    }

    fn note_boundaries(&mut self, i: usize, base: usize, calls: &[CallSpec]) {
        if !self.short_reads {
            return;
        }
        let c = &self.conns[i];
        let mut w = c.wire.0.borrow_mut();
        let set = w.cut_set.as_mut().unwrap();
        let mut p = base;
        for cs in calls {
            set.insert(p + 1);
            p += cs.frame.len();
            set.insert(p - 1);
            set.insert(p);
        }
    }

    /// Model step: calls that are now complete on the wire of connection `i`.
    fn complete(&mut self, i: usize, calls: Vec<CallSpec>) {
        let loglen = self.shared.log.borrow().len();
        for c in calls {
            self.conns[i].complete_at.push((c.id, loglen));
            self.conns[i].queue.push_back(c);
        }
        self.drain(i);
    }

    fn drain(&mut self, i: usize) {
        while self.conns[i].streaming.is_none() {
            let Some(c) = self.conns[i].queue.pop_front() else { break };
            let conn = &mut self.conns[i];
            match c.kind {
                CK::P | CK::O | CK::B | CK::H | CK::X => conn.handled.push((c.id, 'P', matches!(c.kind, CK::O))),
                CK::F | CK::Of => conn.handled.push((c.id, 'F', matches!(c.kind, CK::Of))),
                CK::W(..) => conn.handled.push((c.id, 'W', false)),
                CK::Ow => conn.handled.push((c.id, 'W', true)),
            }
            if let Some(v) = expected_reply(&c) {
                conn.expected.push(v);
            }
            if let CK::W(items, ends) = c.kind {
                conn.streaming = Some(c.id);
                self.streams.push(StreamM { k: c.id, conn: i, items, ends, produced: 0, ended: false });
            }
        }
    }

    pub fn make_burst(&mut self, i: usize, kinds: &[CK]) -> Vec<CallSpec> {
        let mut v = Vec::new();
        for k in kinds {
            let id = (i as u32 + 1) * 100 + self.conns[i].ncalls;
            self.conns[i].ncalls += 1;
            v.push(call_spec(*k, id));
        }
        v
    }

    /// A burst of calls arrives on connection `i`; with `cut = Some(p)` only the first `p` bytes do.
    pub fn send(&mut self, i: usize, calls: Vec<CallSpec>, cut: Option<usize>) {
        let bytes: Vec<u8> = calls.iter().flat_map(|c| c.frame.iter().copied()).collect();
        let base = self.conns[i].sent_bytes;
        self.note_boundaries(i, base, &calls);
        match cut {
            None => {
                self.cx.log(|| format!("event: conn {i}: {} call(s) arrive: {}", calls.len(), show(&bytes)));
                self.conns[i].sent_bytes += bytes.len();
                self.conns[i].wire.arrive(&bytes);
                self.complete(i, calls);
            }
            Some(p) => {
                self.cx.log(|| format!("event: conn {i}: first {p} bytes of a {}-call burst arrive: {}", calls.len(), show(&bytes[..p])));
                let mut done = Vec::new();
                let mut later = Vec::new();
                let mut end = 0;
                for c in calls {
                    end += c.frame.len();
                    if end <= p {
                        done.push(c);
                    } else {
                        later.push(c);
                    }
                }
                self.conns[i].sent_bytes += p;
                self.conns[i].wire.arrive(&bytes[..p]);
                self.conns[i].rest = Some((bytes[p..].to_vec(), later));
                self.complete(i, done);
            }
        }
    }

    pub fn rest(&mut self, i: usize) {
        if let Some((bytes, calls)) = self.conns[i].rest.take() {
            self.cx.log(|| format!("event: conn {i}: the rest of the burst arrives: {}", show(&bytes)));
            self.conns[i].sent_bytes += bytes.len();
            self.conns[i].wire.arrive(&bytes);
            self.complete(i, calls);
        }
    }

    pub fn produce(&mut self, k: u32) {
        let Some(h) = self.shared.streams.borrow().get(&k).cloned() else { xplore::bug!("produce on a stream the service has not opened") };
        let s = self.streams.iter_mut().find(|s| s.k == k).unwrap();
        let idx = s.produced as usize;
        s.produced += 1;
        let last = s.produced == s.items;
        // the last item of a stream that then ends says so; of the items before it, the first one of
        // every other stream carries `continues: false` and the second one no flag at all, although
        // more items follow (an end-of-batch marker): the flag is the service's business
        let continues = if last && s.ends {
            Some(false)
        } else if !last && k % 2 == 1 && idx == 0 {
            self.cx.goal("non-final-item-flagged-continues-false");
            Some(false)
        } else if !last && k % 2 == 0 && idx == 1 {
            None
        } else {
            Some(true)
        };
        let (item, v) = stream_item(k, idx, continues);
        let conn = s.conn;
        self.cx.log(|| format!("event: stream {k} (conn {conn}) produces item {idx} (continues={continues:?})"));
        h.produce(item);
        self.conns[conn].expected.push(v);
    }

    pub fn end_stream(&mut self, k: u32) {
        let Some(h) = self.shared.streams.borrow().get(&k).cloned() else { xplore::bug!("end of a stream the service has not opened") };
        let s = self.streams.iter_mut().find(|s| s.k == k).unwrap();
        s.ended = true;
        let conn = s.conn;
        self.cx.log(|| format!("event: stream {k} (conn {conn}) ends"));
        h.end();
        self.conns[conn].streaming = None;
        self.drain(conn);
    }

    pub fn close(&mut self, i: usize) {
        self.cx.log(|| format!("event: conn {i}: client closes"));
        let c = &mut self.conns[i];
        c.closed = true;
        if c.taint == Taint::Healthy {
            c.taint = Taint::PrefixOnly;
        }
        c.wire.close();
    }

    pub fn fault(&mut self, i: usize, f: Fault) {
        self.cx.log(|| format!("event: conn {i}: fault {f:?}"));
        let c = &mut self.conns[i];
        let strong = |c: &mut ConnM| {
            c.taint = Taint::Unconstrained;
        };
        let weak = |c: &mut ConnM| {
            if c.taint == Taint::Healthy {
                c.taint = Taint::PrefixOnly;
            }
        };
        match f {
            Fault::Garbage => {
                strong(c);
                c.closed = true;
                c.wire.arrive(b"}{ not json \0");
            }
            Fault::TruncatedThenEof => {
                strong(c);
                c.wire.arrive(br#"{"method":"t.Pl"#);
                c.wire.close();
                c.closed = true;
            }
            Fault::EofMidBurst => {
                // one complete call, then a truncated one, then EOF
                strong(c);
                let id = (i as u32 + 1) * 100 + c.ncalls;
                c.ncalls += 1;
                let cs = call_spec(CK::P, id);
                c.wire.arrive(&cs.frame);
                c.wire.arrive(br#"{"method":"t.Plain","param"#);
                c.wire.close();
                c.closed = true;
                // the complete call may or may not be answered
            }
            Fault::Eof => {
                weak(c);
                c.wire.close();
                c.closed = true;
            }
            Fault::ReadError => {
                weak(c);
                c.wire.fail_reads();
                c.closed = true;
            }
            Fault::WriteError => {
                weak(c);
                let mut w = c.wire.0.borrow_mut();
                let k = w.write_attempts;
                w.write_fail_from = Some(k);
            }
            Fault::UnknownMethod => {
                strong(c);
                c.closed = true;
                c.wire.arrive(b"{\"method\":\"t.Nope\",\"parameters\":{}}\0");
            }
            Fault::Oversized => {
                strong(c);
                c.closed = true;
                let mut big = br#"{"method":"t.Plain","parameters":{"n":1,"tag":""#.to_vec();
                big.extend(std::iter::repeat(b'x').take(4200));
                c.wire.arrive(&big);
            }
            Fault::WrongTypes => {
                strong(c);
                c.closed = true;
                c.wire.arrive(b"{\"method\":\"t.Plain\",\"parameters\":{\"n\":\"seven\",\"tag\":5}}\0");
            }
            Fault::LongGarbage(a) => {
                strong(c);
                c.closed = true;
                c.wire.arrive(format!("}}{{{}\0", euros(a)).as_bytes());
            }
            Fault::LongUnknownMethod(a) => {
                strong(c);
                c.closed = true;
                c.wire.arrive(format!("{{\"method\":\"t.N{}\",\"parameters\":{{}}}}\0", euros(a)).as_bytes());
            }
            Fault::LongWrongTypes(a) => {
                strong(c);
                c.closed = true;
                c.wire.arrive(format!("{{\"method\":\"t.Plain\",\"parameters\":{{\"n\":\"{}\",\"tag\":5}}}}\0", euros(a)).as_bytes());
            }
            Fault::LongEscapedMember => {
                strong(c);
                c.closed = true;
                c.wire.arrive(b"{\"\\u0078-unknown-member-with-a-rather-long-name-that-goes-on-and-on-0123456789\":1,\"method\":\"t.Nope\",\"parameters\":{}}\0");
            }
            Fault::BadUtf8 => {
                strong(c);
                c.closed = true;
                let mut f = b"{\"method\":\"t.Plain\",\"parameters\":{\"n\":1,\"tag\":\"".to_vec();
                for i in 0..200u8 {
                    f.extend_from_slice(&[b'a' + i % 26, 0xff, 0xc3, 0x80 | (i % 0x40)]);
                }
                f.extend_from_slice(b"\"}}\0");
                c.wire.arrive(&f);
            }
        }
    }

    pub fn is_healthy(&self, i: usize) -> bool {
        self.conns[i].taint == Taint::Healthy
    }
    pub fn has_rest(&self, i: usize) -> bool {
        self.conns[i].rest.is_some()
    }
    pub fn is_closed(&self, i: usize) -> bool {
        self.conns[i].closed
    }
    pub fn woken(&self) -> bool {
        self.task.woken()
    }

    /// Poll the server until it is pending and quiet, then compare every connection with its model.
    pub fn settle(&mut self) -> Result<(), Fail> {
        if self.task.woken() {
            self.polls_to_quiescence += 1;
            match self.task.run_until_stalled(self.fut.as_mut(), 100_000) {
                Poll::Pending => {}
                Poll::Ready(r) => {
                    return Err(("server:run-returned".into(), format!("Server::run() completed with {r:?} although only per-connection events happened")));
                }
            }
            if self.cx.logging() {
                let outs: Vec<String> = self.conns.iter().enumerate().map(|(i, c)| format!("conn {i}: {}{}", show(&c.wire.written()), if c.wire.dropped() { " [dropped by server]" } else { "" })).collect();
                let log: Vec<u32> = self.shared.log.borrow().iter().map(|h| h.id).collect();
                self.cx.log(|| format!("  server polled to quiescence; service has handled {log:?}; outputs so far: {}", outs.join(" | ")));
            }
        }
        self.check()
    }

    pub fn outputs(&self, i: usize) -> Result<Vec<Value>, Fail> {
        let bytes = self.conns[i].wire.written();
        if bytes.is_empty() {
            return Ok(vec![]);
        }
        if *bytes.last().unwrap() != 0 {
            return Err(("server:output-not-terminated".into(), format!("conn {i}: output `{}` does not end with NUL", show(&bytes))));
        }
        let mut v = Vec::new();
        for f in bytes[..bytes.len() - 1].split(|b| *b == 0) {
            match serde_json::from_slice::<Value>(f) {
                Ok(x) => v.push(norm(x)),
                Err(e) => return Err(("server:output-not-json".into(), format!("conn {i}: frame `{}`: {e}", show(f)))),
            }
        }
        Ok(v)
    }

    pub fn check(&mut self) -> Result<(), Fail> {
        let log: Vec<Handled> = self.shared.log.borrow().clone();
        for i in 0..self.conns.len() {
            let out = self.outputs(i).or_else(|e| if self.conns[i].taint == Taint::Unconstrained { Ok(vec![]) } else { Err(e) })?;
            let c = &self.conns[i];
            let mine: Vec<(u32, char, bool)> = log.iter().filter(|h| h.id / 100 == i as u32 + 1).map(|h| (h.id, h.kind, h.oneway)).collect();
            match c.taint {
                Taint::Unconstrained => continue,
                Taint::PrefixOnly => {
                    if out.len() > c.expected.len() || out[..] != c.expected[..out.len()] {
                        return Err(("server:wrong-output-on-closing-connection".into(), format!("conn {i}: output {} is not a prefix of the model's {}", Value::Array(out), Value::Array(c.expected.clone()))));
                    }
                    if mine.len() > c.handled.len() || mine[..] != c.handled[..mine.len()] {
                        return Err(("server:service-saw-wrong-calls".into(), format!("conn {i}: the service was handed {mine:?}, model {:?}", c.handled)));
                    }
                }
                Taint::Healthy => {
                    // every call that is complete on the wire is owed its reply once the server is
                    // idle, also when the beginning of a later frame has already arrived
                    let complete = true;
                    let n = out.len().min(c.expected.len());
                    if out[..n] != c.expected[..n] || out.len() > c.expected.len() {
                        let class = classify_output_diff(&out, &c.expected, &self.conns, i);
                        return Err((class, format!("conn {i}: output {} but the model says {}", Value::Array(out), Value::Array(c.expected.clone()))));
                    }
                    if mine.len() > c.handled.len() || mine[..] != c.handled[..mine.len()] {
                        return Err(("server:service-saw-wrong-calls".into(), format!("conn {i}: the service was handed {mine:?}, model {:?}", c.handled)));
                    }
                    if complete && (out.len() < c.expected.len() || mine.len() < c.handled.len()) {
                        return Err((
                            "server:reply-missing-at-quiescence".into(),
                            format!("conn {i}: every frame has arrived and the server is idle, yet output is {} and the model says {} (service saw {} of {} calls)", Value::Array(out), Value::Array(c.expected.clone()), mine.len(), c.handled.len()),
                        ));
                    }
                }
            }
        }
        // a healthy client's connection and subscriptions stay
        for (i, c) in self.conns.iter().enumerate() {
            if c.taint == Taint::Healthy && c.wire.dropped() {
                return Err(("server:healthy-connection-dropped".into(), format!("conn {i} sent only valid calls, is open and writable, yet the server dropped it")));
            }
        }
        for s in &self.streams {
            if let Some(h) = self.shared.streams.borrow().get(&s.k) {
                if h.dropped() && !s.ended && self.conns[s.conn].taint == Taint::Healthy {
                    return Err(("server:subscription-dropped".into(), format!("stream {} of conn {} was dropped by the server although the stream has not ended and the client is writable", s.k, s.conn)));
                }
            }
        }
        let mut h = H64::new();
        for c in &self.conns {
            h.u(c.wire.0.borrow().writes.len() as u64).u(c.sent_bytes as u64).u(c.wire.dropped() as u64);
        }
        h.u(log.len() as u64);
        let st = h.get();
        self.cx.state(st);
        self.hash.u(st);
        Ok(())
    }

    /// Everything that was cut arrives, the server settles, final comparison.
    pub fn finish(&mut self) -> Result<(), Fail> {
        for i in 0..self.conns.len() {
            if self.conns[i].rest.is_some() && !self.conns[i].closed {
                self.rest(i);
            }
        }
        self.settle()?;
        // the server must still be running and accepting: a fresh client is served
        if self.conns.iter().any(|c| c.taint != Taint::Healthy) {
            self.cx.goal("connect-after-a-fault");
        }
        let i = self.connect();
        let b = self.make_burst(i, &[CK::P]);
        self.send(i, b, None);
        self.settle()?;
        // each write the server issued holds exactly one whole frame
        for (i, c) in self.conns.iter().enumerate() {
            if c.taint == Taint::Unconstrained {
                continue;
            }
            for w in &c.wire.0.borrow().writes {
                if w.last() != Some(&0) || w[..w.len() - 1].contains(&0) {
                    return Err(("server:write-is-not-one-frame".into(), format!("conn {i}: a write `{}` is not exactly one NUL-terminated frame", show(w))));
                }
            }
        }
        Ok(())
    }
}

fn classify_output_diff(out: &[Value], exp: &[Value], conns: &[ConnM], me: usize) -> String {
    // find the first differing frame and say what it is
    let k = out.iter().zip(exp.iter()).position(|(a, b)| a != b).unwrap_or(exp.len().min(out.len()));
    if k >= out.len() {
        return "server:reply-missing".into();
    }
    let bad = &out[k];
    for (j, c) in conns.iter().enumerate() {
        if j != me && c.expected.contains(bad) {
            return "server:reply-on-wrong-connection".into();
        }
    }
    if exp.contains(bad) {
        if out[..k].contains(bad) {
            return "server:reply-duplicated".into();
        }
        return "server:replies-out-of-order".into();
    }
    // a reply to a oneway call?
    if let Some(n) = bad["parameters"]["n"].as_u64() {
        if conns[me].handled.iter().any(|(id, _, ow)| *id as u64 == n && *ow) {
            return "server:oneway-call-answered".into();
        }
    }
    "server:unexpected-frame".into()
}

// ------------------------------------------------------------------------------------------------
// the explorer-driven scenario

#[derive(Clone, Debug)]
pub struct ScenCfg {
    pub prop: String,
    pub max_conns: usize,
    pub max_calls: usize,
    pub max_events: usize,
    pub bursts: Vec<Vec<CK>>,
    pub faults: Vec<Fault>,
    pub max_faults: usize,
    pub closes: bool,
    pub cuts: bool,
    pub short_reads: bool,
    pub delay_polls: bool,
    pub write_fault_on_stream: bool,
}

impl ScenCfg {
    pub fn to_json(&self) -> Value {
        json!({
            "prop": self.prop, "max_conns": self.max_conns, "max_calls": self.max_calls, "max_events": self.max_events,
            "bursts": self.bursts.iter().map(|b| b.iter().map(ck_name).collect::<Vec<_>>()).collect::<Vec<_>>(),
            "faults": self.faults.iter().map(|f| format!("{f:?}")).collect::<Vec<_>>(), "max_faults": self.max_faults,
            "closes": self.closes, "cuts": self.cuts, "short_reads": self.short_reads, "delay_polls": self.delay_polls,
            "write_fault_on_stream": self.write_fault_on_stream,
        })
    }
    pub fn from_json(v: &Value) -> Option<ScenCfg> {
        Some(ScenCfg {
            prop: v["prop"].as_str()?.to_string(),
            max_conns: v["max_conns"].as_u64()? as usize,
            max_calls: v["max_calls"].as_u64()? as usize,
            max_events: v["max_events"].as_u64()? as usize,
            bursts: v["bursts"].as_array()?.iter().map(|b| b.as_array().unwrap().iter().map(|k| ck_parse(k.as_str().unwrap())).collect()).collect(),
            faults: v["faults"].as_array()?.iter().map(|f| *ALL_FAULTS.iter().chain(CONTENT_FAULTS.iter()).find(|x| format!("{x:?}") == f.as_str().unwrap()).unwrap()).collect(),
            max_faults: v["max_faults"].as_u64()? as usize,
            closes: v["closes"].as_bool()?,
            cuts: v["cuts"].as_bool()?,
            short_reads: v["short_reads"].as_bool()?,
            delay_polls: v["delay_polls"].as_bool()?,
            write_fault_on_stream: v["write_fault_on_stream"].as_bool()?,
        })
    }
}

pub fn ck_name(k: &CK) -> String {
    match k {
        CK::P => "P".into(),
        CK::O => "O".into(),
        CK::F => "F".into(),
        CK::Of => "Of".into(),
        CK::W(n, e) => format!("W{n}{}", if *e { "e" } else { "o" }),
        CK::Ow => "Ow".into(),
        CK::B => "B".into(),
        CK::H => "H".into(),
        CK::X => "X".into(),
    }
}
pub fn ck_parse(s: &str) -> CK {
    match s {
        "P" => CK::P,
        "O" => CK::O,
        "F" => CK::F,
        "Of" => CK::Of,
        "Ow" => CK::Ow,
        "B" => CK::B,
        "H" => CK::H,
        "X" => CK::X,
        w => CK::W(w[1..2].parse().unwrap(), w.ends_with('e')),
    }
}

pub struct Scenario(pub ScenCfg);

impl Harness for Scenario {
    fn run(&self, cx: &Ctx) -> Verdict {
        let cfg = &self.0;
        let mut sim = Sim::new(cx, cfg.short_reads, cfg.delay_polls);
        let mut calls_left = cfg.max_calls;
        let mut faults_left = cfg.max_faults;
        let mut events = 0usize;
        let fail = |(class, detail): Fail| Verdict::Fail(xplore::Violation { class, detail });
        loop {
            // enabled events, in a canonical order
            let mut en: Vec<Ev> = Vec::new();
            if events < cfg.max_events {
                if sim.conns.len() < cfg.max_conns {
                    en.push(Ev::Connect);
                }
                for i in 0..sim.conns.len() {
                    if sim.is_closed(i) {
                        continue;
                    }
                    if sim.has_rest(i) {
                        en.push(Ev::Rest(i));
                    } else {
                        for (b, burst) in cfg.bursts.iter().enumerate() {
                            if burst.len() <= calls_left {
                                en.push(Ev::Send(i, b));
                            }
                        }
                        if cfg.closes {
                            en.push(Ev::Close(i));
                        }
                    }
                    if faults_left > 0 && !sim.has_rest(i) && (sim.is_healthy(i) || cfg.max_faults > 1) {
                        for f in &cfg.faults {
                            if *f == Fault::WriteError && !sim.is_healthy(i) {
                                continue;
                            }
                            en.push(Ev::Fault(i, *f));
                        }
                    }
                }
                let opened: Vec<u32> = sim.shared.streams.borrow().iter().filter(|(_, h)| !h.dropped()).map(|(k, _)| *k).collect();
                for s in &sim.streams {
                    if !opened.contains(&s.k) || s.ended {
                        continue;
                    }
                    if s.produced < s.items {
                        en.push(Ev::Produce(s.k));
                    } else if s.ends {
                        en.push(Ev::End(s.k));
                    }
                }
            }
            if en.is_empty() {
                break;
            }
            let ev = en[cx.choose(en.len(), "event")].clone();
            events += 1;
            match ev {
                Ev::Connect => {
                    let i = sim.connect();
                    cx.log(|| format!("event: client {i} connects"));
                    if sim.conns.iter().any(|c| c.taint != Taint::Healthy) {
                        cx.goal("connect-after-a-fault");
                    }
                }
                Ev::Send(i, b) => {
                    let kinds = cfg.bursts[b].clone();
                    calls_left -= kinds.len();
                    let calls = sim.make_burst(i, &kinds);
                    let len: usize = calls.iter().map(|c| c.frame.len()).sum();
                    let mut cut = None;
                    if cfg.cuts {
                        let first = calls[0].frame.len();
                        let mut cands = vec![1, len / 2, len - 1];
                        if calls.len() > 1 {
                            cands.push(first + 1);
                            cands.push(first - 1);
                        }
                        cands.sort();
                        cands.dedup();
                        let c = cx.choose_dev(cands.len() + 1, "send:whole|cut-at");
                        if c > 0 {
                            cut = Some(cands[c - 1]);
                            cx.goal("burst-cut-mid-frame");
                        }
                    }
                    if kinds.len() > 1 {
                        cx.goal("pipelined-burst");
                    }
                    if kinds.iter().any(|k| matches!(k, CK::O | CK::Of | CK::Ow)) {
                        cx.goal("oneway-call");
                    }
                    if sim.conns[i].streaming.is_some() {
                        cx.goal("calls-arrive-while-stream-open");
                    }
                    if let Some(p) = kinds.iter().position(|k| matches!(k, CK::W(..))) {
                        if p + 1 < kinds.len() {
                            cx.goal("calls-pipelined-behind-streaming-call");
                        }
                    }
                    if sim.conns.iter().enumerate().any(|(j, c)| j != i && c.streaming.is_some()) {
                        cx.goal("other-client-calls-while-stream-open");
                    }
                    sim.send(i, calls, cut);
                }
                Ev::Rest(i) => sim.rest(i),
                Ev::Produce(k) => {
                    cx.goal("stream-item");
                    sim.produce(k)
                }
                Ev::End(k) => {
                    let conn = sim.streams.iter().find(|s| s.k == k).unwrap().conn;
                    if !sim.conns[conn].queue.is_empty() {
                        cx.goal("stream-ends-with-calls-queued-behind");
                    }
                    cx.goal("stream-ends");
                    sim.end_stream(k)
                }
                Ev::Close(i) => {
                    if sim.conns.len() > i + 1 {
                        cx.goal("close-while-later-connection-live");
                    }
                    sim.close(i)
                }
                Ev::Fault(i, f) => {
                    faults_left -= 1;
                    if sim.conns.len() > 1 {
                        cx.goal("fault-with-other-connections-live");
                    }
                    if f == Fault::WriteError && sim.conns[i].streaming.is_some() {
                        cx.goal("client-unwritable-mid-stream");
                    }
                    if f == Fault::Oversized {
                        cx.goal("oversized-frame");
                    }
                    if CONTENT_FAULTS.contains(&f) {
                        cx.goal("long-undecodable-frame-of-multibyte-characters");
                    }
                    sim.fault(i, f)
                }
            }
            // poll now, or let more events pile up first
            if sim.woken() {
                if cfg.delay_polls && events < cfg.max_events && cx.deviate("delay-server-poll") {
                    cx.goal("several-events-before-a-poll");
                    continue;
                }
                if let Err(e) = sim.settle() {
                    return fail(e);
                }
            }
        }
        if let Err(e) = sim.finish() {
            return fail(e);
        }
        let mut h = sim.hash;
        for c in &sim.conns {
            h.u(c.wire.written().len() as u64);
        }
        Verdict::Pass(h.get())
    }
}

/// C10, phase ready-bursts: a stream that has a whole burst of items ready (5 or 40, produced before the
/// server runs again) while 1 or 2 other clients' calls arrive: every connection gets exactly what the
/// model says, and no such call is handed to the service only after the whole burst went out to the
/// subscriber ("while the stream is open other clients are still served").
struct Bursts;

impl Harness for Bursts {
    fn run(&self, cx: &Ctx) -> Verdict {
        let fail = |(class, detail): Fail| Verdict::Fail(xplore::Violation { class, detail });
        let mut sim = Sim::new(cx, false, false);
        let others = 1 + cx.choose(2, "other-clients");
        let n = [5usize, 40][cx.choose(2, "burst-size")];
        let ends = cx.choose(2, "stream-ends") == 1;
        let watcher_first = cx.choose(2, "watcher-connects-first") == 1;
        let calls_first = cx.choose(2, "calls-arrive-before-the-items-are-produced") == 1;
        let mut ids = Vec::new();
        if watcher_first {
            ids.push(sim.connect());
        }
        let mut other_ids = Vec::new();
        for _ in 0..others {
            other_ids.push(sim.connect());
        }
        if !watcher_first {
            ids.push(sim.connect());
        }
        let a = ids[0];
        if let Err(e) = sim.settle() {
            return fail(e);
        }
        let b = sim.make_burst(a, &[CK::W(n as u8, ends)]);
        let k = b[0].id;
        sim.send(a, b, None);
        if let Err(e) = sim.settle() {
            return fail(e);
        }
        let aw = sim.conns[a].wire.clone();
        *sim.shared.probe.borrow_mut() = Some(Box::new(move || aw.0.borrow().writes.len() as u64));
        let kinds = [CK::P, CK::F, CK::B];
        let mut sent = Vec::new();
        let mut send_calls = |sim: &mut Sim<'_>| {
            for o in &other_ids {
                let kind = kinds[cx.choose(kinds.len(), "other-client-call")];
                let b = sim.make_burst(*o, &[kind]);
                sent.push(b[0].id);
                sim.send(*o, b, None);
            }
        };
        if calls_first {
            send_calls(&mut sim);
        }
        for _ in 0..n {
            sim.produce(k);
        }
        if !calls_first {
            send_calls(&mut sim);
        }
        cx.goal("other-client-calls-while-a-burst-of-items-is-ready");
        if let Err(e) = sim.settle() {
            return fail(e);
        }
        for h in sim.shared.log.borrow().iter() {
            if sent.contains(&h.id) && h.epoch >= n as u64 {
                return fail(("server:call-waited-for-a-whole-burst-of-another-clients-stream".into(), format!("call {} arrived together with a burst of {n} ready items of stream {k}; the service was handed it only after {} items had been written to the subscriber", h.id, h.epoch)));
            }
        }
        *sim.shared.probe.borrow_mut() = None;
        if ends {
            sim.end_stream(k);
        }
        match sim.finish() {
            Ok(()) => Verdict::Pass(sim.hash.get()),
            Err(e) => fail(e),
        }
    }
}

fn run_plan(prop: &str, tier: Tier, rule: &str, assumptions: Vec<String>, goals: &[&str], plan: Vec<(&str, ScenCfg, u32)>) -> i32 {
    run_plan_with(prop, tier, rule, assumptions, goals, plan, &[])
}

/// `child`: (binary, subcommand, phase name, goals it must meet) of a phase another binary runs.
fn run_plan_with(prop: &str, tier: Tier, rule: &str, assumptions: Vec<String>, goals: &[&str], plan: Vec<(&str, ScenCfg, u32)>, children: &[(&str, &str, &str, &[&str])]) -> i32 {
    let mut rep = Report::new(prop, tier.name());
    rep.rule = rule.to_string();
    rep.assumptions = assumptions;
    for g in goals {
        rep.require_goal(g);
    }
    let wall = std::time::Duration::from_secs(tier.pick(50, 1500));
    for (name, cfg, budget) in plan {
        let c = Config { budget, max_wall: wall, ..Default::default() };
        let h = Scenario(cfg);
        rep.add(explore(name, h.0.to_json(), &h, &c));
    }
    if prop == "C10" {
        rep.require_goal("other-client-calls-while-a-burst-of-items-is-ready");
        rep.add(explore("ready-bursts/5-or-40-items/1-2-other-clients", json!({"burst_streams": true}), &Bursts, &Config { budget: 0, max_wall: wall, ..Default::default() }));
    }
    for (bin, sub, phase, child_goals) in children.iter().copied() {
        for g in child_goals {
            rep.require_goal(g);
        }
        if let Err(code) = crate::common::child_phase_bin(&mut rep, "main", bin, sub, tier, phase) {
            return code;
        }
    }
    rep.finish()
}

const RULE: &str = "DFS by re-execution over event histories of a real Server::run() on a scripted listener: at each step the next event is a free choice among all enabled ones (a client connects; a burst from the alphabet arrives on a connection - whole, or cut at one of {1, middle, end-1, around the first frame boundary} with the rest arriving as a later event; a stream produces its next item / ends; a client closes; a fault strikes), bounded by connections, total calls and events; deviations: a cut, a short read (a transport read ending at/next to a frame boundary although more has arrived), a transport write that is pending once before it goes through, a delayed server poll (the next event happens before the server runs). After every poll-to-quiescence every connection is compared with its sequential reference model; states are (writes, bytes sent, dropped) per connection + service log length";

fn base_assumptions() -> Vec<String> {
    vec![
        "the server task is polled only when its waker fired (lost wake-ups show up as missing replies)".into(),
        "`continues: false` and an absent `continues` are the same reply".into(),
        "a call is owed its reply once its frame has completely arrived and the server is idle, whether or not the beginning of a later frame has arrived too".into(),
    ]
}

fn singles() -> Vec<Vec<CK>> {
    vec![vec![CK::P], vec![CK::O], vec![CK::F], vec![CK::Of]]
}

pub fn run_c08(tier: Tier) -> i32 {
    let mut bursts = singles();
    bursts.extend([vec![CK::P, CK::P], vec![CK::O, CK::P], vec![CK::P, CK::F], vec![CK::F, CK::O, CK::P], vec![CK::Ow, CK::P], vec![CK::P, CK::B, CK::P]]);
    let mk = |mc, calls, ev, cuts, sr, dp| ScenCfg { prop: "C08".into(), max_conns: mc, max_calls: calls, max_events: ev, bursts: bursts.clone(), faults: vec![], max_faults: 0, closes: false, cuts, short_reads: sr, delay_polls: dp, write_fault_on_stream: false };
    let plan = match tier {
        Tier::Quick => vec![("3conns/5calls/8events", mk(3, 5, 8, false, false, false), 0), ("2conns/4calls/6events+dev", mk(2, 4, 6, true, true, true), 2), ("3conns/4calls/7events+dev", mk(3, 4, 7, true, true, true), 1)],
        Tier::Thorough => vec![("4conns/6calls/9events", mk(4, 6, 9, false, false, false), 0), ("3conns/5calls/7events+dev", mk(3, 5, 7, true, true, true), 2), ("2conns/4calls/6events+dev3", mk(2, 4, 6, true, true, true), 3), ("4conns/5calls/8events+dev", mk(4, 5, 8, true, true, true), 1)],
    };
    // clients come and go: a client that hangs up (EOF) or whose socket stops taking writes (it is
    // gone while subscribed to a stream) is ordinary traffic for the others, who must still get
    // exactly their replies, on their own connections
    let mut plan = plan;
    let leaving: Vec<Vec<CK>> = vec![vec![CK::P], vec![CK::W(1, false)], vec![CK::P, CK::P]];
    plan.push((
        "3conns/clients-that-leave",
        ScenCfg { prop: "C08".into(), max_conns: 3, max_calls: 4, max_events: tier.pick(8, 9), bursts: leaving, faults: vec![Fault::WriteError, Fault::Eof], max_faults: 1, closes: false, cuts: false, short_reads: false, delay_polls: false, write_fault_on_stream: true },
        0,
    ));
    // calls (and replies) of 5 KB: the receive buffer grows some twenty times for one call, other
    // clients' calls arrive meanwhile
    let sizes: Vec<Vec<CK>> = vec![vec![CK::P], vec![CK::H], vec![CK::H, CK::P], vec![CK::B, CK::H], vec![CK::X, CK::P]];
    plan.push((
        "2conns/4calls/6events/5KB-calls+dev",
        ScenCfg { prop: "C08".into(), max_conns: 2, max_calls: 4, max_events: tier.pick(6, 7), bursts: sizes, faults: vec![], max_faults: 0, closes: false, cuts: true, short_reads: true, delay_polls: true, write_fault_on_stream: false },
        tier.pick(1, 2),
    ));
    let mut a = base_assumptions();
    a.push("in the real-transport phase (child process `sockets c08-child`) the server runs over the listeners and transports of zlink-tokio and zlink-smol with plain std clients that stay, half-close their sending side or close, right after writing or once the server is idle, and with calls / replies of 300 KB that a client may leave half-written: a client that can still read gets exactly its replies, everything it sent before hanging up is handled once; a client that closed altogether is owed nothing but the handling of its leading oneway calls".into());
    run_plan_with(
        "C08",
        tier,
        RULE,
        a,
        &["pipelined-burst", "oneway-call", "burst-cut-mid-frame", "several-events-before-a-poll", "fault-with-other-connections-live"],
        plan,
        &[("sockets", "c08-child", "real-listeners-and-transports/tokio+smol(child)", &["client-half-closes-before-the-server-reads", "oneway-call-then-close", "client-leaves-a-large-reply-half-written-while-another-is-served"])],
    )
}

/// C07 also runs the server: `Server::run` drops every pending receive future whenever another arm
/// of its loop fires, and whatever helper it selects with must not complete a receive whose result
/// it then throws away.  Two connections, calls cut mid-frame, short reads, delayed polls.
pub fn c07_phases(tier: Tier) -> Vec<(&'static str, ScenCfg, u32)> {
    let bursts: Vec<Vec<CK>> = vec![vec![CK::P], vec![CK::P, CK::P], vec![CK::B]];
    let mk = |mc, calls, ev| ScenCfg { prop: "C07".into(), max_conns: mc, max_calls: calls, max_events: ev, bursts: bursts.clone(), faults: vec![], max_faults: 0, closes: false, cuts: true, short_reads: true, delay_polls: true, write_fault_on_stream: false };
    match tier {
        Tier::Quick => vec![("server/2conns/3calls/6events+dev", mk(2, 3, 6), 2)],
        Tier::Thorough => vec![("server/2conns/4calls/7events+dev", mk(2, 4, 7), 2), ("server/3conns/3calls/7events+dev", mk(3, 3, 7), 2)],
    }
}

pub fn run_c09(tier: Tier) -> i32 {
    let mut bursts = vec![vec![CK::P], vec![CK::F], vec![CK::P, CK::P]];
    let mk = |mc, calls, ev, nf, dp, b: &Vec<Vec<CK>>| ScenCfg { prop: "C09".into(), max_conns: mc, max_calls: calls, max_events: ev, bursts: b.clone(), faults: ALL_FAULTS.to_vec(), max_faults: nf, closes: false, cuts: false, short_reads: false, delay_polls: dp, write_fault_on_stream: false };
    let mut plan = match tier {
        Tier::Quick => vec![("3conns/4calls/8events/1fault", mk(3, 4, 8, 1, false, &bursts), 0), ("3conns/3calls/7events/2faults", mk(3, 3, 7, 2, false, &bursts), 0), ("2conns/3calls/6events/1fault+delay", mk(2, 3, 6, 1, true, &bursts), 2)],
        Tier::Thorough => vec![("4conns/5calls/9events/1fault", mk(4, 5, 9, 1, false, &bursts), 0), ("3conns/4calls/8events/2faults", mk(3, 4, 8, 2, false, &bursts), 0), ("3conns/4calls/7events/1fault+delay", mk(3, 4, 7, 1, true, &bursts), 2)],
    };
    // undecodable frames that are long and not ASCII (what the server does with a frame it can not
    // decode - logging it, quoting it in an answer - must not depend on what is in it)
    let mut cf = mk(3, 3, tier.pick(6, 7), 1, false, &bursts);
    cf.faults = CONTENT_FAULTS.to_vec();
    plan.push(("3conns/3calls/6-7events/1-long-non-ascii-undecodable-frame", cf, 0));
    // the same fault on several connections, one after the other, and calls that need the receive
    // buffer to grow on the others (whatever the server accounts per connection must be settled when
    // the connection goes)
    #[cfg(zlink_verif_small_buf)]
    {
        let big: Vec<Vec<CK>> = vec![vec![CK::P], vec![CK::B], vec![CK::B, CK::P]];
        let mut rep = mk(4, 2, tier.pick(8, 9), 3, false, &big);
        rep.faults = vec![Fault::Oversized];
        plan.push(("4conns/2calls/8-9events/up-to-3-oversized-frames", rep, 0));
        let mut rep2 = mk(3, 2, tier.pick(6, 7), 2, false, &big);
        rep2.faults = vec![Fault::Oversized, Fault::LongGarbage(0), Fault::Eof];
        plan.push(("3conns/2calls/6-7events/2-faults-and-calls-larger-than-the-buffer", rep2, 0));
    }
    // faults while a stream is open
    bursts.push(vec![CK::W(1, true)]);
    plan.push(("streams/2conns/3calls/7-8events/1fault", mk(2, 3, tier.pick(7, 8), 1, false, &bursts), 0));
    // a fault strikes while several connections are parked in streams (indices in both server lists shift)
    let parked: Vec<Vec<CK>> = vec![vec![CK::P], vec![CK::W(1, false)], vec![CK::W(0, true)]];
    let mut c3 = mk(3, 3, tier.pick(8, 9), 1, false, &parked);
    c3.faults = vec![Fault::WriteError, Fault::Eof, Fault::Garbage, Fault::ReadError];
    plan.push(("streams/3conns/3calls/8-9events/1fault", c3, 0));
    let mut a = base_assumptions();
    a.push("a connection struck by EOF / read error / write error may lose replies (its output must stay a prefix of its model); one that sent an undecodable frame is unconstrained afterwards (the server may answer it or drop it); every other connection must match its model exactly".into());
    a.push("this check is built with the buffer limit lowered to 4096 bytes (hook zlink_verif_small_buf), so that an oversized frame is an affordable fault".into());
    #[cfg(zlink_verif_small_buf)]
    let goals = ["fault-with-other-connections-live", "connect-after-a-fault", "oversized-frame", "long-undecodable-frame-of-multibyte-characters"];
    #[cfg(not(zlink_verif_small_buf))]
    let goals = ["fault-with-other-connections-live", "connect-after-a-fault", "long-undecodable-frame-of-multibyte-characters"];
    a.push("in the notified-state phase (child process `sockets c09-child`) the service's reply streams are the library's notified::State of zlink-tokio / zlink-smol and clients hang up, also while subscribed: the other subscribers still get the latest value, later subscriptions work, callers of Set get their replies".into());
    run_plan_with("C09", tier, RULE, a, &goals, plan, &[
        ("sockets", "c09-child", "notified-state-service/subscribers-that-hang-up/tokio+smol(child)", &["subscriber-hangs-up", "state-changes-after-one-of-several-subscribers-hung-up"]),
        ("sockets", "c08-child", "real-listeners-and-transports/clients-that-leave/tokio+smol(child)", &["client-leaves-a-large-reply-half-written-while-another-is-served", "client-half-closes-before-the-server-reads"]),
    ])
}

pub fn run_c10(tier: Tier) -> i32 {
    let bursts: Vec<Vec<CK>> = vec![
        vec![CK::P],
        vec![CK::W(0, true)],
        vec![CK::W(1, true)],
        vec![CK::W(2, true)],
        vec![CK::W(2, false)],
        vec![CK::W(1, true), CK::P],
        vec![CK::P, CK::W(2, true), CK::F],
        vec![CK::W(1, true), CK::W(1, true)],
        vec![CK::B, CK::W(1, true), CK::B],
    ];
    let mk = |mc, calls, ev, faults: Vec<Fault>, cuts, dp| ScenCfg { prop: "C10".into(), max_conns: mc, max_calls: calls, max_events: ev, bursts: bursts.clone(), faults: faults.clone(), max_faults: if faults.is_empty() { 0 } else { 1 }, closes: false, cuts, short_reads: cuts, delay_polls: dp, write_fault_on_stream: true };
    // three streams open at once need three connections: a phase with streaming calls only
    let streams_only: Vec<Vec<CK>> = vec![vec![CK::W(0, true)], vec![CK::W(1, false)], vec![CK::W(1, true)], vec![CK::W(0, true), CK::P]];
    let mk3 = |ev| ScenCfg { prop: "C10".into(), max_conns: 3, max_calls: 4, max_events: ev, bursts: streams_only.clone(), faults: vec![], max_faults: 0, closes: false, cuts: false, short_reads: false, delay_polls: false, write_fault_on_stream: true };
    let mut plan = match tier {
        Tier::Quick => vec![("2conns/4calls/8events", mk(2, 4, 8, vec![], false, false), 0), ("2conns/3calls/7events+dev", mk(2, 3, 7, vec![], true, true), 1), ("2conns/3calls/8events/unwritable", mk(2, 3, 8, vec![Fault::WriteError], false, false), 0)],
        Tier::Thorough => vec![
            ("3conns/5calls/8events", mk(3, 5, 8, vec![], false, false), 0),
            ("2conns/4calls/7events+dev", mk(2, 4, 7, vec![], true, true), 2),
            ("3conns/4calls/7events/unwritable", mk(3, 4, 7, vec![Fault::WriteError], false, false), 0),
            ("2conns/4calls/7events/unwritable+delay", mk(2, 4, 7, vec![Fault::WriteError], false, true), 1),
        ],
    };
    plan.push(("3conns/streaming-calls-only/8-9events", mk3(tier.pick(8, 9)), 0));
    let mut a = base_assumptions();
    a.push("stream items are produced by driver events once the service has opened the stream; a stream's last item carries continues=false when the stream then ends, continues=true when it stays open".into());
    a.push("in the notified-state phases (child process `sockets c10-child`) the service's reply streams are the library's own notified::State / notified::Once of zlink-tokio and zlink-smol: a subscriber may skip values but gets them in order, marked continues, and has the latest one once the server is idle; callers of Set / Get / Once get exactly their replies whatever the subscribers do; in the real-transport phase (child process `sockets c10-real-child`) a stream over the zlink-tokio / zlink-smol transports produces a small item, one of about 700 KB (several socket writes) and a final one, with a plain call pipelined before or behind the streaming call".into());
    run_plan_with(
        "C10",
        tier,
        RULE,
        a,
        &["stream-item", "non-final-item-flagged-continues-false", "stream-ends", "calls-pipelined-behind-streaming-call", "stream-ends-with-calls-queued-behind", "other-client-calls-while-stream-open", "calls-arrive-while-stream-open", "client-unwritable-mid-stream"],
        plan,
        &[
            ("sockets", "c10-child", "notified-state-service/tokio+smol(child)", &["burst-of-state-changes-while-subscribed", "subscriber-got-the-latest-value", "one-shot-stream", "subscriber-hangs-up"]),
            ("sockets", "c10-real-child", "real-listeners-and-transports/stream-with-a-700KB-item/tokio+smol(child)", &["stream-item-of-several-socket-writes"]),
        ],
    )
}

pub fn replay(v: &Value) -> Replayed {
    if let Some(r) = crate::common::replay_child(v) {
        return r;
    }
    if v["harness"]["burst_streams"] == true {
        return replay_dfs(&Bursts, v);
    }
    match ScenCfg::from_json(&v["harness"]) {
        Some(c) => replay_dfs(&Scenario(c), v),
        None => Replayed::Error("cannot rebuild the server scenario from the replay file".into()),
    }
}
