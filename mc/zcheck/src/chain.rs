//! C06 (a chain's reply stream yields exactly the replies its calls are owed) and
//! C11 (data borrowed from a yielded reply is never overwritten, moved or freed while still usable).
//!
//! Seam: `Connection::chain_call(..).append(..)…send()` and the returned reply stream, over a
//! `simnet` wire whose inbound bytes arrive in driver-chosen chunks.
//! C06 oracle: the owed-replies model (one reply or error per non-oneway call; for a `more` call every
//! reply up to and including the first that does not continue); one write with all calls; the stream
//! ends exactly there without polling the transport again; a trailing unrelated frame is left for the
//! next `receive_reply`.
//! C11 oracle: every yielded item is kept; after every later item each held borrowed `&str` must
//! (1) not lie in memory that was released since, (2) not overlap a range a later transport read
//! wrote to, (3) still have the content it had when yielded.

use crate::alloclog;
use crate::common::{replay_dfs, Replayed, Tier};
use futures_util::Stream;
use serde::{Deserialize, Serialize};
use serde_json::{json, Value};
use simnet::{complete, show, PendPolicy, ReadPolicy, ScriptSocket, Task, Wire};
use std::task::Poll;
use xplore::report::Report;
use xplore::{explore, Config, Ctx, Harness, Verdict, H64};
use zlink_core::{Call, Connection};

type Conn = Connection<ScriptSocket>;

#[derive(Debug, Serialize)]
#[serde(tag = "method", content = "parameters")]
enum Meth {
    #[serde(rename = "a.Get")]
    Get { id: u32 },
    #[serde(rename = "a.Put")]
    Put { id: u32, data: String },
    /// a call that can not be encoded: every way of queueing it is refused
    #[serde(rename = "a.Bad")]
    Bad { x: Refuse },
}

#[derive(Debug)]
struct Refuse;
impl Serialize for Refuse {
    fn serialize<S: serde::Serializer>(&self, _: S) -> Result<S::Ok, S::Error> {
        Err(serde::ser::Error::custom("this value refuses to be encoded"))
    }
}

#[derive(Debug, Deserialize)]
struct R<'a> {
    #[serde(borrow)]
    s: &'a str,
    n: u32,
}

#[derive(Debug, zlink_core::ReplyError)]
#[zlink(interface = "a", crate = "zlink_core")]
enum E<'a> {
    NotFound { what: &'a str },
    Gone,
}

#[derive(Clone, Copy, Debug, PartialEq, Eq)]
enum CallKind {
    Plain,
    Oneway,
    More,
    /// both flags set: oneway wins, nothing is owed
    OnewayMore,
}

#[derive(Clone, Debug)]
struct FrameSpec {
    bytes: Vec<u8>,
    /// what the stream must yield for this frame
    expect: String,
    /// the borrowed string inside (for C11)
    payload: String,
}

fn payload(size: usize, salt: usize) -> String {
    (0..size).map(|i| (b'a' + ((i * 7 + salt * 3) % 26) as u8) as char).collect()
}

fn success_frame(n: u32, size: usize, continues: Option<bool>) -> FrameSpec {
    let s = payload(size, n as usize);
    let mut v = json!({"parameters": {"s": s, "n": n}});
    if let Some(c) = continues {
        v["continues"] = json!(c);
    }
    FrameSpec { bytes: serde_json::to_vec(&v).unwrap(), expect: format!("reply n={n} continues={continues:?} s={}b#{:x}", s.len(), xplore::hash_of(&s) & 0xffff), payload: s }
}
fn error_frame(n: u32, size: usize) -> FrameSpec {
    if n % 2 == 0 {
        let s = payload(size, n as usize + 11);
        let v = json!({"error": "a.NotFound", "parameters": {"what": s}});
        FrameSpec { bytes: serde_json::to_vec(&v).unwrap(), expect: format!("error NotFound what={}b#{:x}", s.len(), xplore::hash_of(&s) & 0xffff), payload: s }
    } else {
        FrameSpec { bytes: br#"{"error":"a.Gone"}"#.to_vec(), expect: "error Gone".into(), payload: String::new() }
    }
}

/// A final reply that does not decode as the expected types: wrong-shaped parameters or an error
/// neither the standard service errors nor the caller's error type know.
fn undecodable_frame(n: u32) -> FrameSpec {
    let bytes: &[u8] = if n % 2 == 0 { br#"{"parameters":{"s":7,"n":"seven"}}"# } else { br#"{"error":"x.NotDeclaredAnywhere","parameters":{"k":1}}"# };
    FrameSpec { bytes: bytes.to_vec(), expect: "transport-or-decode-error".into(), payload: String::new() }
}

fn render(item: &zlink_core::Result<zlink_core::reply::Result<R<'_>, E<'_>>>) -> String {
    match item {
        Ok(Ok(r)) => match r.parameters() {
            Some(p) => format!("reply n={} continues={:?} s={}b#{:x}", p.n, r.continues(), p.s.len(), xplore::hash_of(&p.s.to_string()) & 0xffff),
            None => format!("reply without parameters continues={:?}", r.continues()),
        },
        Ok(Err(E::NotFound { what })) => format!("error NotFound what={}b#{:x}", what.len(), xplore::hash_of(&what.to_string()) & 0xffff),
        Ok(Err(E::Gone)) => "error Gone".into(),
        Err(zlink_core::Error::UnexpectedEof) => "transport-eof".into(),
        Err(e) => format!("transport-or-decode-error {e:?}"),
    }
}

fn borrowed<'a>(item: &zlink_core::Result<zlink_core::reply::Result<R<'a>, E<'a>>>) -> Option<&'a str> {
    match item {
        Ok(Ok(r)) => r.parameters().map(|p| p.s),
        Ok(Err(E::NotFound { what })) => Some(*what),
        _ => None,
    }
}

#[derive(Clone, Debug, PartialEq)]
enum Cuts {
    /// inter-frame cut points are free choices (every subset), mid-frame cuts cost a deviation
    FreeInter,
    /// every cut costs a deviation
    Dev,
}

struct ChainH {
    max_calls: usize,
    cuts: Cuts,
    /// C11 mode: hold every item, payload sizes from this alphabet (free choice per reply)
    hold: bool,
    sizes: Vec<usize>,
    pend: bool,
    max_cont: usize,
    /// the peer may pad its replies with extra NUL bytes (always on when items are held)
    pad: bool,
}

impl ChainH {
    fn config(&self) -> Value {
        json!({"max_calls": self.max_calls, "cuts": if self.cuts == Cuts::FreeInter { "free-inter" } else { "dev" }, "hold": self.hold, "sizes": self.sizes, "pend": self.pend, "max_cont": self.max_cont, "pad": self.pad})
    }
    fn from_config(v: &Value) -> Option<ChainH> {
        Some(ChainH {
            max_calls: v["max_calls"].as_u64()? as usize,
            cuts: if v["cuts"] == "free-inter" { Cuts::FreeInter } else { Cuts::Dev },
            hold: v["hold"].as_bool()?,
            sizes: v["sizes"].as_array()?.iter().map(|x| x.as_u64().unwrap_or(8) as usize).collect(),
            pend: v["pend"].as_bool()?,
            max_cont: v["max_cont"].as_u64()? as usize,
            pad: v["pad"].as_bool().unwrap_or(v["hold"].as_bool()?),
        })
    }
    fn size(&self, cx: &Ctx) -> usize {
        if self.sizes.len() == 1 {
            self.sizes[0]
        } else {
            self.sizes[cx.choose(self.sizes.len(), "reply:payload-size")]
        }
    }
}

fn deliver(wire: &Wire, chunks: &mut std::collections::VecDeque<Vec<u8>>, arrived: &mut usize) -> bool {
    match chunks.pop_front() {
        Some(c) => {
            *arrived += c.len();
            if !c.is_empty() {
                wire.arrive(&c);
            }
            true
        }
        None => false,
    }
}

struct Held {
    idx: usize,
    ptr: usize,
    len: usize,
    copy: String,
    alloc_mark: usize,
    reads_mark: usize,
    /// all later frames had already arrived (been read) when this item was yielded
    rest_already_read: bool,
    /// number of transport read attempts (successful or not) made by then
    polls_mark: usize,
}

impl Harness for ChainH {
    fn run(&self, cx: &Ctx) -> Verdict {
        // 1. the chain and the server's script
        let ncalls = 1 + cx.choose(self.max_calls, "chain:calls-1");
        let mut kinds = Vec::new();
        let mut frames: Vec<FrameSpec> = Vec::new();
        let mut seq = 0u32;
        for _ in 0..ncalls {
            let k = [CallKind::Plain, CallKind::Oneway, CallKind::More, CallKind::OnewayMore][cx.choose(if self.hold { 3 } else { 4 }, "call:plain|oneway|more|oneway+more")];
            kinds.push(k);
            match k {
                CallKind::Oneway => {}
                CallKind::OnewayMore => cx.goal("call-flagged-oneway-and-more"),
                CallKind::Plain => {
                    seq += 1;
                    match cx.choose(if self.hold { 2 } else { 3 }, "reply:success|error|undecodable") {
                        0 => frames.push(success_frame(seq, self.size(cx), None)),
                        1 => {
                            cx.goal("error-reply-in-chain");
                            frames.push(error_frame(seq, self.size(cx)));
                        }
                        _ => {
                            cx.goal("undecodable-reply-in-chain");
                            frames.push(undecodable_frame(seq));
                        }
                    }
                }
                CallKind::More => {
                    let cont = cx.choose(self.max_cont + 1, "more:continuing-replies");
                    for _ in 0..cont {
                        seq += 1;
                        frames.push(success_frame(seq, self.size(cx), Some(true)));
                        cx.goal("more-call-with-continuing-replies");
                    }
                    seq += 1;
                    match cx.choose(if self.hold { 2 } else { 3 }, "final:success|error|undecodable") {
                        0 => frames.push(success_frame(seq, self.size(cx), Some(false))),
                        1 => {
                            cx.goal("error-reply-in-chain");
                            frames.push(error_frame(seq, self.size(cx)));
                        }
                        _ => {
                            cx.goal("undecodable-reply-in-chain");
                            frames.push(undecodable_frame(seq));
                        }
                    }
                }
            }
        }
        let owed = frames.len();
        if owed == 0 {
            cx.goal("chain-of-only-oneway-calls");
        }
        let trailing = cx.choose(2, "trailing-frame:absent|present") == 1;
        if trailing {
            cx.goal("trailing-unrelated-frame");
            frames.push(success_frame(99, 8, None));
        }
        // C11 only: the peer may pad its replies with extra NUL bytes (a NUL where a message would
        // start is padding to the connection; held data must survive that like anything else)
        let pad = if self.pad { [0usize, 1, 3][cx.choose(3, "padding-after-every-reply:0|1|3")] } else { 0 };
        if pad > 0 {
            cx.goal("replies-padded-with-extra-NULs");
        }
        let mut stream_bytes = Vec::new();
        let mut own_ends: Vec<usize> = Vec::new();
        let mut cands: Vec<(usize, bool)> = vec![(0, false)]; // (position, inter-frame?)
        for (i, f) in frames.iter().enumerate() {
            let start = stream_bytes.len();
            stream_bytes.extend_from_slice(&f.bytes);
            stream_bytes.push(0);
            own_ends.push(stream_bytes.len());
            stream_bytes.extend(std::iter::repeat(0u8).take(pad));
            let end = stream_bytes.len();
            cands.push((start + 1, false));
            cands.push((start + f.bytes.len() / 2, false));
            cands.push((end - 1, false));
            if i + 1 < frames.len() {
                cands.push((end, true));
            }
        }
        cands.sort();
        cands.dedup_by_key(|c| c.0);
        let mut cuts: Vec<usize> = Vec::new();
        if !stream_bytes.is_empty() {
            for (pos, inter) in &cands {
                let cut = if *inter && self.cuts == Cuts::FreeInter { cx.choose(2, "cut:inter-frame") == 1 } else { cx.deviate(if *inter { "cut:inter-frame" } else { "cut:mid-frame" }) };
                if cut {
                    cuts.push(*pos);
                    if *inter {
                        cx.goal("replies-in-separate-reads");
                    } else if *pos > 0 {
                        cx.goal("reply-split-mid-frame");
                    }
                }
            }
            if frames.len() >= 2 && !cuts.iter().any(|c| *c > 0) {
                cx.goal("replies-coalesced-in-one-read");
            }
        }
        // C11 only: the peer may hang up after its first reply or in the middle of its second one;
        // the stream then reports the end of the transport, and what was yielded before stays valid
        let hangup = if self.hold && owed >= 2 && pad == 0 { cx.choose(3, "peer-hangs-up:never|after-the-first-reply|inside-the-second-reply") } else { 0 };
        if hangup > 0 {
            let at = if hangup == 1 { own_ends[0] } else { own_ends[0] + pad + frames[1].bytes.len() / 2 };
            stream_bytes.truncate(at);
            cuts.retain(|c| *c < at);
            cx.goal("peer-hangs-up-while-items-are-held");
        }
        // C11 only: the caller may lose interest and drop the stream after the first of the owed items,
        // keeping what it was given: those values borrow from the connection, not from
        // the stream, and safe code can go on reading them
        let stop_after = if self.hold && owed >= 2 && pad == 0 && hangup == 0 { cx.choose(2, "caller-drops-the-stream:never|after-the-first-item") } else { 0 };
        let mut hung_up = false;
        let frame_ends: Vec<usize> = {
            let mut e = Vec::new();
            let mut p = 0;
            for f in &frames {
                p += f.bytes.len() + 1 + pad;
                e.push(p);
            }
            e
        };
        cx.log(|| format!("chain {kinds:?}; server sends {} frame(s) ({} owed{}): {} ; arrival cuts at {cuts:?}", frames.len(), owed, if trailing { " + 1 unrelated" } else { "" }, show(&stream_bytes)));

        // 2. connection, chain, send
        let wire = Wire::new(0, Some(cx.clone()));
        {
            let mut w = wire.0.borrow_mut();
            w.read_policy = ReadPolicy::Natural;
            w.pend_policy = if self.pend { PendPolicy::ChoiceDev } else { PendPolicy::Never };
            w.log_reads = true;
        }
        let mut chunks: std::collections::VecDeque<Vec<u8>> = {
            let mut v = std::collections::VecDeque::new();
            let mut prev = 0;
            for c in cuts.iter().chain(std::iter::once(&stream_bytes.len())) {
                v.push_back(stream_bytes[prev..*c].to_vec());
                prev = *c;
            }
            v
        };
        let mut arrived = 0usize;
        deliver(&wire, &mut chunks, &mut arrived);

        let mut conn: Conn = wire.connection();
        let calls: Vec<Call<Meth>> = kinds
            .iter()
            .enumerate()
            .map(|(i, k)| {
                let c = Call::new(Meth::Get { id: i as u32 });
                match k {
                    CallKind::Plain => c,
                    CallKind::Oneway => c.set_oneway(true),
                    CallKind::More => c.set_more(true),
                    CallKind::OnewayMore => c.set_oneway(true).set_more(true),
                }
            })
            .collect();
        let mut h = H64::new();
        if self.hold {
            alloclog::start();
        }
        let verdict: Result<bool, Verdict> = (|| {
            let mut chain = conn.chain_call::<Meth, R<'_>, E<'_>>(&calls[0]).map_err(|e| Verdict::fail("chain:call-refused", format!("{e:?}")))?;
            for c in &calls[1..] {
                chain = chain.append(c).map_err(|e| Verdict::fail("chain:call-refused", format!("{e:?}")))?;
            }
            let stream = complete(chain.send()).map_err(|e| Verdict::fail("chain:send-failed", format!("{e:?}")))?;
            // one write, all calls, chain order
            {
                let w = wire.0.borrow();
                let mut exp = Vec::new();
                for c in &calls {
                    exp.extend_from_slice(&serde_json::to_vec(c).unwrap());
                    exp.push(0);
                }
                if w.writes.len() != 1 || w.writes[0] != exp {
                    let same_values = w.writes.len() == 1
                        && w.writes[0].last() == Some(&0)
                        && w.writes[0][..w.writes[0].len() - 1].split(|b| *b == 0).map(|d| serde_json::from_slice::<Value>(d).ok()).collect::<Vec<_>>()
                            == calls.iter().map(|c| serde_json::to_value(c).ok()).collect::<Vec<_>>();
                    if !same_values {
                        return Err(Verdict::fail(
                            if w.writes.len() != 1 { "chain:calls-not-in-one-write" } else { "chain:wrong-bytes-written" },
                            format!("chain {kinds:?}: {} write(s): {:?}; expected one write `{}`", w.writes.len(), w.writes.iter().map(|x| show(x)).collect::<Vec<_>>(), show(&exp)),
                        ));
                    }
                }
            }
            let mut stream = Box::pin(stream);
            let mut task = Task::new();
            let mut items: Vec<zlink_core::Result<zlink_core::reply::Result<R<'_>, E<'_>>>> = Vec::new();
            let mut held: Vec<Held> = Vec::new();
            let mut yields: Vec<(usize, usize, usize)> = Vec::new();
            let mut yielded = 0usize;
            let mut bad_seen = false;
            let mut gave_up = false;
            loop {
                let polls_before = wire.0.borrow().read_polls;
                let mut guard = 0;
                let item = loop {
                    match task.poll_with(|c| stream.as_mut().poll_next(c)) {
                        Poll::Ready(x) => break Ok(x),
                        Poll::Pending => {
                            guard += 1;
                            if guard > 10_000 {
                                xplore::bug!("reply stream woke itself 10000 times");
                            }
                            if task.woken() {
                                continue;
                            }
                            if yielded >= owed {
                                break Err("waits-for-a-reply-nobody-owes");
                            }
                            if !deliver(&wire, &mut chunks, &mut arrived) {
                                if hangup > 0 && !hung_up {
                                    hung_up = true;
                                    cx.log(|| "event: the peer hangs up".to_string());
                                    wire.close();
                                    continue;
                                }
                                break Err("stalled-with-all-bytes-delivered");
                            }
                        }
                    }
                };
                let item = match item {
                    Ok(i) => i,
                    Err(kind) => {
                        return Err(Verdict::fail(
                            format!("chain:{kind}"),
                            format!("chain {kinds:?}, {owed} replies owed, {yielded} yielded: the reply stream is pending although {}", if kind.starts_with("waits") { "every owed reply has been yielded" } else { "all bytes were delivered" }),
                        ));
                    }
                };
                let polled_transport = wire.0.borrow().read_polls > polls_before;
                match item {
                    None => {
                        cx.log(|| format!("stream: end (after {yielded} items; transport polled during this step: {polled_transport})"));
                        if yielded < owed && bad_seen {
                            // the stream gave up at the reply it could not decode: the rest of the
                            // exchange is the caller's problem, nothing more is judged
                            if polled_transport {
                                return Err(Verdict::fail("chain:end-of-stream-polled-transport", format!("chain {kinds:?}: the transport was polled after the stream had given up at an undecodable reply")));
                            }
                            gave_up = true;
                            break;
                        }
                        if yielded < owed {
                            return Err(Verdict::fail("chain:stream-ended-early", format!("chain {kinds:?}: the stream ended after {yielded} of {owed} owed replies")));
                        }
                        if polled_transport {
                            return Err(Verdict::fail("chain:end-of-stream-polled-transport", format!("chain {kinds:?}: the transport was polled after all {owed} owed replies were yielded")));
                        }
                        break;
                    }
                    Some(it) => {
                        let got = render(&it);
                        cx.log(|| format!("stream: item #{yielded}: {got}"));
                        if hung_up && yielded >= 1 && (got == "transport-eof" || got.starts_with("transport-or-decode-error")) {
                            // the transport ended: nothing more is owed, but what is held must be intact
                            check_held(cx, &wire, &|i| borrowed(&items[i]).unwrap_or("").to_string(), &held, &frames, yielded, "chain", &yields)?;
                            gave_up = true;
                            break;
                        }
                        if yielded >= owed {
                            let class = if owed == 0 { "chain:oneway-only-chain-yields-a-reply" } else { "chain:stream-yields-more-than-owed" };
                            return Err(Verdict::fail(class, format!("chain {kinds:?}: {owed} replies owed but the stream yielded item #{yielded}: `{got}` (stream {})", show(&stream_bytes))));
                        }
                        if frames[yielded].expect == "transport-or-decode-error" {
                            bad_seen = true;
                            if !got.starts_with("transport-or-decode-error") {
                                return Err(Verdict::fail("chain:undecodable-reply-yielded-as-a-message", format!("chain {kinds:?}: item #{yielded} is `{got}` for the frame `{}`", show(&frames[yielded].bytes))));
                            }
                        } else if got != frames[yielded].expect {
                            return Err(Verdict::fail("chain:wrong-item", format!("chain {kinds:?}: item #{yielded} is `{got}`, expected `{}` (stream {}, cuts {cuts:?})", frames[yielded].expect, show(&stream_bytes))));
                        }
                        h.s(&got);
                        cx.state(H64::new().u(yielded as u64).u(wire.0.borrow().consumed as u64).get());
                        if self.hold {
                            // first the items held so far …
                            check_held(cx, &wire, &|i| borrowed(&items[i]).unwrap_or("").to_string(), &held, &frames, yielded, "chain", &yields)?;
                            yields.push((wire.0.borrow().reads.len(), own_ends[yielded], wire.0.borrow().consumed));
                            // … then this one joins them
                            if let Some(s) = borrowed(&it) {
                                let consumed = wire.0.borrow().consumed;
                                held.push(Held {
                                    idx: yielded,
                                    ptr: s.as_ptr() as usize,
                                    len: s.len(),
                                    copy: frames[yielded].payload.clone(),
                                    alloc_mark: alloclog::mark(),
                                    reads_mark: wire.0.borrow().reads.len(),
                                    rest_already_read: consumed >= frame_ends[owed - 1],
                                    polls_mark: wire.0.borrow().read_polls,
                                });
                            }
                            items.push(it);
                        }
                        yielded += 1;
                        if stop_after > 0 && yielded == stop_after {
                            cx.goal("stream-dropped-with-replies-still-owed");
                            cx.log(|| format!("the caller drops the stream after {yielded} of {owed} items"));
                            drop(stream);
                            check_held(cx, &wire, &|i| borrowed(&items[i]).unwrap_or("").to_string(), &held, &frames, yielded, "chain", &yields)?;
                            return Ok(true);
                        }
                    }
                }
            }
            if self.hold {
                check_held(cx, &wire, &|i| borrowed(&items[i]).unwrap_or("").to_string(), &held, &frames, yielded, "chain", &yields)?;
            }
            Ok(gave_up)
        })();
        if self.hold {
            alloclog::stop();
            if alloclog::overflowed() {
                xplore::bug!("allocation log overflowed");
            }
        }
        let gave_up = match verdict {
            Err(v) => return v,
            Ok(g) => g,
        };
        if owed == 0 && wire.0.borrow().read_polls != 0 {
            return Verdict::fail("chain:oneway-only-chain-polled-transport", format!("chain {kinds:?}: nothing is owed, yet the transport was polled for data"));
        }
        // 3. the trailing frame belongs to the next exchange
        if trailing && !gave_up {
            while deliver(&wire, &mut chunks, &mut arrived) {}
            let r = simnet::complete_or_stall(conn.receive_reply::<R<'_>, E<'_>>());
            let got = match &r {
                Some(x) => render(x),
                None => "STALL".to_string(),
            };
            cx.log(|| format!("receive_reply after the chain: {got}"));
            let exp = &frames[owed].expect;
            if &got != exp {
                return Verdict::fail("chain:later-exchange-lost-its-frame", format!("chain {kinds:?}: after the stream ended, receive_reply returned `{got}` instead of the unrelated frame `{exp}`"));
            }
            h.s(&got);
        }
        h.u(wire.0.borrow().read_polls as u64);
        Verdict::Pass(h.get())
    }
}

/// `yields`: for every item yielded so far (held or not) the number of transport reads that had
/// happened by then, the stream offset at which its frame ends (its own NUL included), and how many
/// bytes of the stream had been read from the transport by then.
fn check_held(cx: &Ctx, wire: &Wire, current: &dyn Fn(usize) -> String, held: &[Held], frames: &[FrameSpec], now: usize, site_name: &str, yields: &[(usize, usize, usize)]) -> Result<(), Verdict> {
    let w = wire.0.borrow();
    for hd in held {
        let site = if hd.rest_already_read { "-with-no-new-data" } else { "" };
        if hd.rest_already_read {
            cx.goal("item-held-while-rest-is-buffered");
        } else {
            cx.goal("item-held-across-a-later-read");
        }
        // A transport read attempt that came after another read had filled the buffer to its end:
        // before it the connection either grows the buffer (the block may move: the listed finding
        // `freed-by-buffer-growth`) or moves the pending bytes to the front (`reclaimed`, below).
        // (The attempt itself may have brought nothing: the peer hung up.)
        let attempts_since = w.read_polls > hd.polls_mark;
        let full_buffer_met = (hd.reads_mark.max(1)..=w.reads.len()).any(|j| (j < w.reads.len() || attempts_since) && w.reads[j - 1].n == w.reads[j - 1].cap && w.reads[j - 1].cap > 0);
        if alloclog::freed_since(hd.alloc_mark, hd.ptr, hd.len.max(1)) {
            // a buffer that was never full has no reason to be given up: not the listed finding
            let site = if !full_buffer_met && site.is_empty() { "-although-it-was-never-full" } else { site };
            cx.soft_fail(
                format!("borrow:{site_name}:held-item-freed-by-buffer-growth{site}"),
                format!(
                    "item #{} (a {}-byte &str at {:#x}) was yielded and is still held; by the time item/end #{now} was obtained the buffer it points into had been released (reallocated by growth): use after free. frames: {:?}",
                    hd.idx,
                    hd.len,
                    hd.ptr,
                    frames.iter().map(|f| f.bytes.len()).collect::<Vec<_>>()
                ),
            );
            continue;
        }
        let mut overwritten = false;
        for (j, r) in w.reads.iter().enumerate().skip(hd.reads_mark) {
            if r.n > 0 && r.ptr < hd.ptr + hd.len && hd.ptr < r.ptr + r.n {
                overwritten = true;
                // The listed finding is a read that follows a rewind: the connection rewinds its
                // cursors when it hands out the last message it has buffered, and every read from
                // then on may land on items yielded before.  As long as every message handed out
                // since the held one still had bytes buffered behind it (padding, the beginning of
                // the next reply) there was no rewind, and a read can only reach the held item
                // after a full buffer was reclaimed - anything else is a different defect.
                let later_bytes_buffered = !yields.iter().skip(hd.idx).filter(|(nreads, _, _)| *nreads <= j).any(|(_, end, consumed)| *consumed <= *end);
                let reclaimed = (hd.reads_mark.max(1)..=j).any(|q| w.reads[q - 1].n == w.reads[q - 1].cap && w.reads[q - 1].cap > 0);
                let site = if later_bytes_buffered && !reclaimed && site.is_empty() { "-although-later-bytes-were-already-buffered" } else { site };
                cx.soft_fail(
                    format!("borrow:{site_name}:held-item-overwritten-by-later-read{site}"),
                    format!(
                        "item #{} (a {}-byte &str at {:#x}) was yielded and is still held; a later transport read wrote {} bytes at {:#x}, over it, before item/end #{now} was obtained. frames: {:?}",
                        hd.idx,
                        hd.len,
                        hd.ptr,
                        r.n,
                        r.ptr,
                        frames.iter().map(|f| f.bytes.len()).collect::<Vec<_>>()
                    ),
                );
                break;
            }
        }
        if overwritten {
            continue;
        }
        // neither released nor written by the transport: safe code reads the held value
        let cur = current(hd.idx);
        // A transport read that came after another one had filled the buffer to its end: before it
        // the connection either grew the buffer (caught above as a release) or moved the pending
        // bytes to the front to use the space of the messages already handed out again.
        let reclaimed = full_buffer_met;
        if cur != hd.copy && reclaimed && !hd.rest_already_read {
            cx.soft_fail(
                format!("borrow:{site_name}:held-item-moved-over-when-a-full-buffer-was-reclaimed"),
                format!(
                    "item #{} read `{}` when yielded and reads `{}` after item/end #{now}: a later transport read found the buffer full and the connection moved the pending bytes to its front, over the held item. frames: {:?}",
                    hd.idx,
                    hd.copy.chars().take(40).collect::<String>(),
                    cur.chars().take(40).collect::<String>(),
                    frames.iter().map(|f| f.bytes.len()).collect::<Vec<_>>()
                ),
            );
        } else if cur != hd.copy {
            cx.soft_fail(
                format!("borrow:{site_name}:held-item-content-changed{site}"),
                format!("item #{} read `{}` when yielded and reads `{}` after item/end #{now}", hd.idx, hd.copy.chars().take(40).collect::<String>(), cur.chars().take(40).collect::<String>()),
            );
        }
    }
    Ok(())
}

// ------------------------------------------------------------------------------------------------
// C11, second call site: the stream a `#[zlink(more)]` proxy method returns

#[zlink_core::proxy(interface = "a", crate = "zlink_core")]
trait WatchProxy {
    #[zlink(more)]
    async fn watch(&mut self, id: u32) -> zlink_core::Result<impl Stream<Item = zlink_core::Result<Result<R<'_>, E<'_>>>>>;
}

struct ProxyStreamH {
    max_replies: usize,
    sizes: Vec<usize>,
}

impl Harness for ProxyStreamH {
    fn run(&self, cx: &Ctx) -> Verdict {
        let n = 2 + cx.choose(self.max_replies - 1, "replies-2");
        let mut frames = Vec::new();
        for i in 0..n {
            let size = self.sizes[cx.choose(self.sizes.len(), "reply:payload-size")];
            frames.push(success_frame(i as u32 + 1, size, Some(i + 1 < n)));
        }
        let pad = [0usize, 1, 3][cx.choose(3, "padding-after-every-reply:0|1|3")];
        if pad > 0 {
            cx.goal("replies-padded-with-extra-NULs");
        }
        let mut stream_bytes = Vec::new();
        let mut ends = Vec::new();
        let mut own_ends = Vec::new();
        for f in &frames {
            stream_bytes.extend_from_slice(&f.bytes);
            stream_bytes.push(0);
            own_ends.push(stream_bytes.len());
            stream_bytes.extend(std::iter::repeat(0u8).take(pad));
            ends.push(stream_bytes.len());
        }
        // every subset of the inter-frame cuts
        let mut cuts = Vec::new();
        for e in &ends[..ends.len() - 1] {
            if cx.choose(2, "cut:inter-frame") == 1 {
                cuts.push(*e);
                cx.goal("replies-in-separate-reads");
            }
        }
        if cuts.is_empty() {
            cx.goal("replies-coalesced-in-one-read");
        }
        cx.log(|| format!("proxy `more` method; server sends {n} replies: {} ; arrival cuts at {cuts:?}", show(&stream_bytes)));
        let wire = Wire::new(0, Some(cx.clone()));
        wire.0.borrow_mut().log_reads = true;
        let mut chunks: std::collections::VecDeque<Vec<u8>> = std::collections::VecDeque::new();
        let mut prev = 0;
        for c in cuts.iter().chain(std::iter::once(&stream_bytes.len())) {
            chunks.push_back(stream_bytes[prev..*c].to_vec());
            prev = *c;
        }
        let mut arrived = 0;
        deliver(&wire, &mut chunks, &mut arrived);
        let mut conn: Conn = wire.connection();
        alloclog::start();
        let verdict: Result<u64, Verdict> = (|| {
            let stream = complete(conn.watch(7)).map_err(|e| Verdict::fail("proxy-stream:call-failed", format!("{e:?}")))?;
            let mut stream = std::pin::pin!(stream);
            let mut task = Task::new();
            let mut items: Vec<zlink_core::Result<Result<R<'_>, E<'_>>>> = Vec::new();
            let mut held: Vec<Held> = Vec::new();
            let mut yields: Vec<(usize, usize, usize)> = Vec::new();
            let mut h = H64::new();
            let get = |items: &Vec<zlink_core::Result<Result<R<'_>, E<'_>>>>, i: usize| -> String {
                match &items[i] {
                    Ok(Ok(r)) => r.s.to_string(),
                    _ => String::new(),
                }
            };
            for k in 0..n {
                let mut guard = 0;
                let item = loop {
                    match task.poll_with(|c| stream.as_mut().poll_next(c)) {
                        Poll::Ready(x) => break x,
                        Poll::Pending => {
                            guard += 1;
                            if guard > 10_000 {
                                xplore::bug!("proxy stream woke itself 10000 times");
                            }
                            if !task.woken() && !deliver(&wire, &mut chunks, &mut arrived) {
                                return Err(Verdict::fail("proxy-stream:stalled", format!("item {k} of {n} never came")));
                            }
                        }
                    }
                };
                let Some(it) = item else { return Err(Verdict::fail("proxy-stream:ended-early", format!("stream ended after {k} of {n} items"))) };
                let got = match &it {
                    Ok(Ok(r)) => format!("item n={} s={}b", r.n, r.s.len()),
                    other => format!("{other:?}"),
                };
                cx.log(|| format!("stream: item #{k}: {got}"));
                if !matches!(&it, Ok(Ok(r)) if r.s == frames[k].payload && r.n == k as u32 + 1) {
                    return Err(Verdict::fail("proxy-stream:wrong-item", format!("item #{k}: {got}")));
                }
                h.s(&got);
                check_held(cx, &wire, &|i| get(&items, i), &held, &frames, k, "proxy-stream", &yields)?;
                yields.push((wire.0.borrow().reads.len(), own_ends[k], wire.0.borrow().consumed));
                if let Ok(Ok(r)) = &it {
                    held.push(Held { idx: k, ptr: r.s.as_ptr() as usize, len: r.s.len(), copy: frames[k].payload.clone(), alloc_mark: alloclog::mark(), reads_mark: wire.0.borrow().reads.len(), rest_already_read: wire.0.borrow().consumed >= stream_bytes.len(), polls_mark: wire.0.borrow().read_polls });
                }
                items.push(it);
            }
            check_held(cx, &wire, &|i| get(&items, i), &held, &frames, n, "proxy-stream", &yields)?;
            Ok(h.get())
        })();
        alloclog::stop();
        if alloclog::overflowed() {
            xplore::bug!("allocation log overflowed");
        }
        match verdict {
            Ok(h) => Verdict::Pass(h),
            Err(v) => v,
        }
    }
}

// ------------------------------------------------------------------------------------------------
// large chains: what `send()` hands to the transport is far beyond the buffer's growth step

const LARGE_CHAIN_FORMS: [&str; 3] = ["three calls, the middle one large", "many calls of about 1000 bytes", "one large call first, then small ones"];

fn large_chain_totals(tier: Tier) -> Vec<usize> {
    let mut v = vec![16_383, 65_535, 65_536, 65_537, 70_000, 131_073, 200_000];
    if tier == Tier::Thorough {
        v.extend([262_144, 524_289, 1_048_576, 3_000_000]);
    }
    v
}

/// A chain whose calls add up to about `total` bytes, kinds rotating plain / oneway / more: one
/// write with all of them, then exactly the owed replies, then the end, the next exchange's frame
/// untouched.
fn large_chain_case(totals: &[usize], idx: u64, sink: &mut xplore::Sink<'_>) {
    let form = (idx % LARGE_CHAIN_FORMS.len() as u64) as usize;
    let total = totals[(idx / LARGE_CHAIN_FORMS.len() as u64) as usize];
    let case = move || json!({"group": "large-chain", "form": LARGE_CHAIN_FORMS[form], "about_bytes": total, "index": idx});
    let data = |n: usize, salt: usize| payload(n, salt);
    let mut calls: Vec<Call<Meth>> = Vec::new();
    match form {
        0 => {
            calls.push(Call::new(Meth::Get { id: 0 }));
            calls.push(Call::new(Meth::Put { id: 1, data: data(total, 1) }).set_more(true));
            calls.push(Call::new(Meth::Get { id: 2 }).set_oneway(true));
        }
        1 => {
            for i in 0..(total / 1000).max(2) {
                let c = Call::new(Meth::Put { id: i as u32, data: data(950 + i % 7, i) });
                calls.push(match i % 3 {
                    0 => c,
                    1 => c.set_oneway(true),
                    _ => c.set_more(true),
                });
            }
        }
        _ => {
            calls.push(Call::new(Meth::Put { id: 0, data: data(total, 3) }));
            for i in 1..6 {
                calls.push(Call::new(Meth::Get { id: i }).set_oneway(i % 2 == 0));
            }
        }
    }
    check_chain_of(calls, &case, sink, idx);
}

/// One write with all of `calls`, then exactly the owed replies, then the end, the next exchange's
/// frame untouched.
fn check_chain_of(calls: Vec<Call<Meth>>, case: &dyn Fn() -> Value, sink: &mut xplore::Sink<'_>, idx: u64) {
    check_chain_after(&[], calls, case, sink, idx)
}

const REFUSED_WAYS: [&str; 5] = ["enqueue_call", "chain_call", "send_call", "call_method", "a chain whose second call is refused"];

/// The same, on a connection that first refused calls it could not encode (`refused`: for each the way
/// it was offered, and whether it was flagged oneway): nothing of them may be left behind - not in the
/// bytes of the chain's one write and not in the number of replies the chain thinks it is owed.
fn check_chain_after(refused: &[(usize, bool)], calls: Vec<Call<Meth>>, case: &dyn Fn() -> Value, sink: &mut xplore::Sink<'_>, idx: u64) {
    let mut exp = Vec::new();
    for c in &calls {
        exp.extend_from_slice(&serde_json::to_vec(c).unwrap());
        exp.push(0);
    }
    if exp.len() > 65536 {
        sink.goal("chain-larger-than-64KiB");
    }
    // replies: one per call that is owed any; a `more` call gets one continuing reply first
    let mut frames: Vec<FrameSpec> = Vec::new();
    let mut seq = 0;
    for c in &calls {
        if c.oneway() {
            continue;
        }
        if c.more() {
            seq += 1;
            frames.push(success_frame(seq, 8, Some(true)));
        }
        seq += 1;
        frames.push(success_frame(seq, 8, if c.more() { Some(false) } else { None }));
    }
    let owed = frames.len();
    frames.push(success_frame(9999, 8, None));
    let wire = Wire::new(0, None);
    for f in &frames {
        wire.arrive(&f.bytes);
        wire.arrive(&[0]);
    }
    let mut conn: Conn = wire.connection();
    for (way, oneway) in refused {
        let bad = Call::new(Meth::Bad { x: Refuse }).set_oneway(*oneway);
        let refused_ok = match way {
            0 => conn.enqueue_call(&bad).is_err(),
            1 => conn.chain_call::<Meth, R<'_>, E<'_>>(&bad).is_err(),
            2 => complete(conn.send_call(&bad)).is_err(),
            3 => complete(conn.call_method::<Meth, R<'_>, E<'_>>(&bad)).is_err(),
            _ => match conn.chain_call::<Meth, R<'_>, E<'_>>(&Call::new(Meth::Get { id: 77 }).set_oneway(true)) {
                // (the first call of this abandoned chain is oneway: whether or not its bytes go out
                // later, nobody owes a reply for it; its bytes are not judged below)
                Ok(chain) => chain.append(&bad).is_err(),
                Err(_) => false,
            },
        };
        if !refused_ok {
            sink.fail("chain:unencodable-call-accepted", format!("{} took a call whose parameters can not be encoded", REFUSED_WAYS[*way]), case());
            return;
        }
        sink.goal("chain-after-a-refused-call");
    }
    let abandoned_first = refused.iter().any(|(w, _)| *w == 4);
    let r: Result<(), (String, String)> = (|| {
        let mut chain = conn.chain_call::<Meth, R<'_>, E<'_>>(&calls[0]).map_err(|e| ("chain:call-refused".to_string(), format!("{e:?}")))?;
        for c in &calls[1..] {
            chain = chain.append(c).map_err(|e| ("chain:call-refused".to_string(), format!("{e:?}")))?;
        }
        let stream = complete(chain.send()).map_err(|e| ("chain:send-failed".to_string(), format!("{e:?}")))?;
        {
            let w = wire.0.borrow();
            if w.writes.len() != 1 {
                return Err(("chain:calls-not-in-one-write".into(), format!("{} calls ({} bytes) reached the transport in {} writes of {:?} bytes", calls.len(), exp.len(), w.writes.len(), w.writes.iter().map(|x| x.len()).collect::<Vec<_>>())));
            }
            // (calls that were accepted into an abandoned chain may or may not go out with this
            // write: only what follows them is compared then)
            let tail_ok = abandoned_first && w.writes[0].ends_with(&exp);
            if w.writes[0] != exp && !tail_ok {
                return Err(("chain:wrong-bytes-written".into(), format!("{} calls: the one write has {} bytes, expected {}, first difference at {:?}", calls.len(), w.writes[0].len(), exp.len(), w.writes[0].iter().zip(exp.iter()).position(|(a, b)| a != b))));
            }
        }
        let mut stream = std::pin::pin!(stream);
        let mut task = Task::new();
        let mut yielded = 0;
        loop {
            match task.poll_with(|c| stream.as_mut().poll_next(c)) {
                Poll::Pending => return Err(("chain:stalled-with-all-bytes-delivered".into(), format!("after {yielded} of {owed} items"))),
                Poll::Ready(None) => break,
                Poll::Ready(Some(it)) => {
                    let got = render(&it);
                    if yielded >= owed {
                        return Err(("chain:stream-yields-more-than-owed".into(), format!("item #{yielded}: {got}")));
                    }
                    if got != frames[yielded].expect {
                        return Err(("chain:wrong-item".into(), format!("item #{yielded}: {got}, expected {}", frames[yielded].expect)));
                    }
                    yielded += 1;
                }
            }
        }
        if yielded < owed {
            return Err(("chain:stream-ended-early".into(), format!("{yielded} of {owed}")));
        }
        Ok(())
    })();
    if let Err((c, d)) = r {
        sink.fail(c, d, case());
        return;
    }
    match complete(conn.receive_reply::<R<'_>, E<'_>>()) {
        Ok(Ok(r)) if r.parameters().map(|p| p.n) == Some(9999) => {}
        other => {
            sink.fail("chain:trailing-frame-damaged", format!("the next exchange's reply came back as {other:?}"), case());
            return;
        }
    }
    if sink.wants_sample() {
        sink.sample(case);
    }
    sink.steps(calls.len() as u64 + owed as u64);
    sink.state(H64::new().u(calls.len() as u64).get());
    sink.pass(H64::new().u(idx).u(exp.len() as u64).get());
}

// ------------------------------------------------------------------------------------------------
// chains built with the methods the proxy macro generates (`chain_<m>` to start one, `<m>` on the
// chain to extend it): the same rule, with the calls coming out of generated code

mod pc {
    use serde::Deserialize;
    #[derive(Debug, Deserialize, PartialEq)]
    pub struct Ro {
        pub s: String,
        pub n: u32,
    }
    #[derive(Debug, PartialEq, zlink_core::ReplyError)]
    #[zlink(interface = "a", crate = "zlink_core")]
    pub enum Eo {
        NotFound { what: String },
        Gone,
    }
    #[zlink_core::proxy(interface = "a", crate = "zlink_core")]
    pub trait ChainProxy {
        async fn get(&mut self, id: u32) -> zlink_core::Result<Result<Ro, Eo>>;
        async fn ping(&mut self) -> zlink_core::Result<Result<Ro, Eo>>;
        #[zlink(more)]
        async fn observe(&mut self, id: u32) -> zlink_core::Result<impl futures_util::Stream<Item = zlink_core::Result<Result<Ro, Eo>>>>;
        #[zlink(more)]
        async fn observe_all(&mut self) -> zlink_core::Result<impl futures_util::Stream<Item = zlink_core::Result<Result<Ro, Eo>>>>;
        #[zlink(oneway)]
        async fn note(&mut self, id: u32) -> zlink_core::Result<()>;
        #[zlink(oneway)]
        async fn poke(&mut self) -> zlink_core::Result<()>;
    }
}
use pc::{ChainProxy, ChainProxyChain, Eo, Ro};

const PC_STARTS: [&str; 4] = ["get", "ping", "observe", "observe_all"];
const PC_EXTS: [&str; 2] = ["get", "ping"];

fn pc_expected_call(m: &str, id: u32) -> Value {
    match m {
        "get" => json!({"method": "a.Get", "parameters": {"id": id}}),
        "ping" => json!({"method": "a.Ping"}),
        "observe" => json!({"method": "a.Observe", "parameters": {"id": id}, "more": true}),
        "observe_all" => json!({"method": "a.ObserveAll", "more": true}),
        "note" => json!({"method": "a.Note", "parameters": {"id": id}, "oneway": true}),
        _ => json!({"method": "a.Poke", "oneway": true}),
    }
}

/// idx -> (start method, extension methods (0..=2), continuing replies for a `more` start, replies
/// arriving together or one by one)
fn proxy_chain_case(idx: u64, sink: &mut xplore::Sink<'_>) {
    let start = PC_STARTS[(idx % 4) as usize];
    let mut rest = idx / 4;
    let ext_code = rest % 7; // 0: none, 1..=2: one, 3..=6: two
    rest /= 7;
    let cont = (rest % 3) as usize;
    let separate = rest / 3 % 2 == 1;
    let exts: Vec<&str> = if ext_code == 0 {
        vec![]
    } else if ext_code <= 2 {
        vec![PC_EXTS[(ext_code - 1) as usize]]
    } else {
        vec![PC_EXTS[((ext_code - 3) / 2) as usize], PC_EXTS[((ext_code - 3) % 2) as usize]]
    };
    let case = || json!({"group": "proxy-chain", "index": idx, "start": format!("chain_{start}"), "extended_with": exts, "continuing_replies_to_a_more_start": cont, "replies_arrive_one_by_one": separate});
    let is_more = start.starts_with("observe");
    if is_more {
        sink.goal("generated-chain-starts-with-a-more-method");
        if start == "observe_all" {
            sink.goal("generated-chain-starts-with-a-more-method-without-arguments");
        }
    }
    // what must be written, and what is owed
    let mut calls: Vec<Value> = vec![pc_expected_call(start, 1)];
    for (j, e) in exts.iter().enumerate() {
        calls.push(pc_expected_call(e, 2 + j as u32));
    }
    let mut frames: Vec<Vec<u8>> = Vec::new();
    let mut expect: Vec<String> = Vec::new();
    let mut seq = 0u32;
    let mut reply = |cont: Option<bool>, frames: &mut Vec<Vec<u8>>, expect: &mut Vec<String>| {
        seq += 1;
        let mut v = json!({"parameters": {"s": format!("r{seq}"), "n": seq}});
        if let Some(c) = cont {
            v["continues"] = json!(c);
        }
        frames.push(serde_json::to_vec(&v).unwrap());
        expect.push(format!("reply s=r{seq} n={seq} continues={}", cont == Some(true)));
    };
    for c in &calls {
        if c.get("oneway").is_some() {
            continue;
        }
        if c.get("more").is_some() {
            for _ in 0..cont {
                reply(Some(true), &mut frames, &mut expect);
            }
            reply(Some(false), &mut frames, &mut expect);
        } else {
            reply(None, &mut frames, &mut expect);
        }
    }
    let owed = frames.len();
    frames.push(br#"{"parameters":{"s":"next-exchange","n":9999}}"#.to_vec());
    let wire = Wire::new(0, None);
    let arrive = |k: usize| {
        wire.arrive(&frames[k]);
        wire.arrive(&[0]);
    };
    if !separate {
        for k in 0..frames.len() {
            arrive(k);
        }
    }
    let mut conn: Conn = wire.connection();
    let r: Result<(), (String, String)> = (|| {
        let refused = |e: zlink_core::Error| ("chain:call-refused".to_string(), format!("{e:?}"));
        let mut chain = match start {
            "get" => conn.chain_get::<Ro, Eo>(1),
            "ping" => conn.chain_ping::<Ro, Eo>(),
            "observe" => conn.chain_observe::<Ro, Eo>(1),
            _ => conn.chain_observe_all::<Ro, Eo>(),
        }
        .map_err(refused)?;
        for (j, e) in exts.iter().enumerate() {
            let id = 2 + j as u32;
            chain = match *e {
                "get" => chain.get(id),
                _ => chain.ping(),
            }
            .map_err(refused)?;
        }
        let stream = complete(chain.send()).map_err(|e| ("chain:send-failed".to_string(), format!("{e:?}")))?;
        {
            let w = wire.0.borrow();
            if w.writes.len() != 1 {
                return Err(("chain:calls-not-in-one-write".into(), format!("{} writes", w.writes.len())));
            }
            let got: Vec<Value> = w.writes[0].split(|b| *b == 0).filter(|f| !f.is_empty()).map(|f| serde_json::from_slice(f).unwrap_or(Value::Null)).collect();
            if got != calls || w.writes[0].last() != Some(&0) {
                return Err(("chain:wrong-calls-written".into(), format!("the transport got {} but the chain is {}", Value::Array(got), Value::Array(calls.clone()))));
            }
        }
        let mut stream = std::pin::pin!(stream);
        let mut task = Task::new();
        let mut yielded = 0usize;
        let mut arrived = if separate { 0 } else { frames.len() };
        loop {
            match task.poll_with(|c| stream.as_mut().poll_next(c)) {
                Poll::Pending => {
                    if task.woken() {
                        continue;
                    }
                    if yielded >= owed {
                        return Err(("chain:waits-for-a-reply-nobody-owes".into(), format!("{yielded} of {owed} yielded, the stream is pending")));
                    }
                    if arrived >= frames.len() {
                        return Err(("chain:stalled-with-all-bytes-delivered".into(), format!("after {yielded} of {owed} items")));
                    }
                    arrive(arrived);
                    arrived += 1;
                }
                Poll::Ready(None) => break,
                Poll::Ready(Some(it)) => {
                    let got = match &it {
                        Ok(Ok(r)) => match r.parameters() {
                            Some(p) => format!("reply s={} n={} continues={}", p.s, p.n, r.continues() == Some(true)),
                            None => format!("reply without parameters: {r:?}"),
                        },
                        other => format!("{other:?}"),
                    };
                    if yielded >= owed {
                        return Err(("chain:stream-yields-more-than-owed".into(), format!("item #{yielded}: {got}")));
                    }
                    if got != expect[yielded] {
                        return Err(("chain:wrong-item".into(), format!("item #{yielded}: {got}, expected {}", expect[yielded])));
                    }
                    yielded += 1;
                }
            }
        }
        if yielded < owed {
            return Err(("chain:stream-ended-early".into(), format!("the stream ended after {yielded} of the {owed} replies the chain is owed")));
        }
        if separate {
            while arrived < frames.len() {
                arrive(arrived);
                arrived += 1;
            }
        }
        Ok(())
    })();
    if let Err((c, d)) = r {
        sink.fail(c, format!("{}: {d}", case()), case());
        return;
    }
    match simnet::complete_or_stall(conn.receive_reply::<Ro, Eo>()) {
        Some(Ok(Ok(r))) if r.parameters().map(|p| p.n) == Some(9999) => {}
        other => {
            sink.fail("chain:later-exchange-lost-its-frame", format!("{}: the next exchange's reply came back as {other:?}", case()), case());
            return;
        }
    }
    if sink.wants_sample() {
        sink.sample(case);
    }
    sink.steps(calls.len() as u64 + owed as u64);
    sink.state(H64::new().u(calls.len() as u64).u(owed as u64).get());
    sink.pass(H64::new().u(idx).get());
}
const PROXY_CHAIN_CASES: u64 = 4 * 7 * 3 * 2;

/// A chain of five calls (plain, plain with a payload of `pad` bytes, oneway, more, plain): for every
/// `pad` in 0..=600 some call of the chain ends exactly at the end of the send buffer as it is then.
fn padded_chain_case(idx: u64, sink: &mut xplore::Sink<'_>) {
    let pad = idx as usize;
    let calls = vec![
        Call::new(Meth::Get { id: 1 }),
        Call::new(Meth::Put { id: 2, data: payload(pad, 2) }),
        Call::new(Meth::Get { id: 3 }).set_oneway(true),
        Call::new(Meth::Put { id: 4, data: payload(pad / 3, 4) }).set_more(true),
        Call::new(Meth::Get { id: 5 }),
    ];
    sink.goal("chain-with-calls-of-every-size");
    let case = move || json!({"group": "padded-chain", "index": idx, "second_call_payload_bytes": pad});
    check_chain_of(calls, &case, sink, idx);
}

/// Phase chains-after-refused-calls: 1 or 2 calls that can not be encoded, each offered in one of
/// five ways and flagged oneway or not, then a chain of 1..3 calls of rotating kinds.
const REFUSED_CASES: u64 = (10 + 100) * 6;

fn refused_chain_case(idx: u64, sink: &mut xplore::Sink<'_>) {
    let shape = (idx % 6) as usize;
    let r = idx / 6;
    let one = |k: u64| ((k % 5) as usize, k / 5 % 2 == 1);
    let refused: Vec<(usize, bool)> = if r < 10 { vec![one(r)] } else { vec![one((r - 10) % 10), one((r - 10) / 10)] };
    let kinds: &[u8] = [&b"p"[..], b"m", b"pp", b"op", b"pmo", b"mpp"][shape];
    let calls: Vec<Call<Meth>> = kinds
        .iter()
        .enumerate()
        .map(|(i, k)| {
            let c = Call::new(Meth::Get { id: i as u32 + 1 });
            match k {
                b'o' => c.set_oneway(true),
                b'm' => c.set_more(true),
                _ => c,
            }
        })
        .collect();
    let shown: Vec<String> = refused.iter().map(|(w, o)| format!("{}{}", REFUSED_WAYS[*w], if *o { " (oneway)" } else { "" })).collect();
    let kinds_s = String::from_utf8_lossy(kinds).to_string();
    let case = move || json!({"group": "refused-then-chain", "index": idx, "refused": shown, "chain": kinds_s});
    check_chain_after(&refused, calls, &case, sink, idx);
}

pub fn run_c06(tier: Tier) -> i32 {
    let mut rep = Report::new("C06", tier.name());
    rep.rule = "DFS by re-execution over: chain in {plain, oneway, more, oneway+more}^1..N x per non-oneway call a reply script (success | declared error | a final reply that does not decode - wrong-shaped parameters or an error nobody declares; for `more` 0..2 continuing replies before that final reply) x trailing unrelated frame {absent, present} x arrival chunking of the reply bytes (cut candidates: before the first byte, after the first byte / in the middle / before the NUL of every frame, between frames; phase `inter` takes every subset of the inter-frame cuts, the other cuts and spurious Pending answers cost one deviation each). Outcomes are distinct (item sequence, number of transport polls). Phase generated-chain-methods: chains started with each of the four `chain_<m>` methods the proxy macro generates for a trait with plain and more methods with and without arguments (oneway methods get no chain forms), extended with 0..2 generated extension methods, 0..2 continuing replies to a `more` start, replies arriving together or one by one. Phase chains-of-every-size: a chain of five calls (plain, plain with a payload of p bytes, oneway, more, plain) for every p in 0..=600 (thorough 1500), so that some call ends exactly at the end of the send buffer. Phase chains-after-refused-calls: a connection that first refused 1 or 2 calls it could not encode (a parameter whose Serialize impl fails), each offered through enqueue_call, chain_call, send_call, call_method or as the second call of a chain that is then abandoned, flagged oneway or not, and then sends a chain of 1..3 calls: one write with exactly the chain's bytes, exactly the owed replies, the next exchange untouched. Phase large-chains: chains adding up to 16 KiB .. 200 KB (thorough: 3 MB), built in three ways (one large call among small ones, hundreds of 1000-byte calls, a large call first), kinds rotating plain / oneway / more: one write, the owed replies, the next exchange untouched".into();
    rep.assumptions = vec!["server reply scripts conform to the protocol (one reply per call; continues only on replies to `more` calls)".into(), "the stream is polled only when its waker fired or new bytes were delivered".into(), "after a reply that does not decode the stream may end (what remains of the exchange is then not judged) or carry on; in both cases it must not take or wait for more frames than the chain is owed".into()];
    for g in [
        "chain-of-only-oneway-calls",
        "more-call-with-continuing-replies",
        "error-reply-in-chain",
        "undecodable-reply-in-chain",
        "call-flagged-oneway-and-more",
        "trailing-unrelated-frame",
        "replies-in-separate-reads",
        "replies-coalesced-in-one-read",
        "reply-split-mid-frame",
    ] {
        rep.require_goal(g);
    }
    let wall = std::time::Duration::from_secs(tier.pick(60, 1500));
    let plan: Vec<(&str, ChainH, u32)> = match tier {
        Tier::Quick => vec![
            ("inter/<=3calls", ChainH { max_calls: 3, cuts: Cuts::FreeInter, hold: false, sizes: vec![8], pend: true, max_cont: 2, pad: false }, 1),
            ("dev/<=4calls", ChainH { max_calls: 4, cuts: Cuts::Dev, hold: false, sizes: vec![8], pend: true, max_cont: 2, pad: false }, 1),
        ],
        Tier::Thorough => vec![
            ("inter/<=4calls", ChainH { max_calls: 4, cuts: Cuts::FreeInter, hold: false, sizes: vec![8], pend: true, max_cont: 2, pad: false }, 1),
            ("dev2/<=4calls", ChainH { max_calls: 4, cuts: Cuts::Dev, hold: false, sizes: vec![8], pend: true, max_cont: 2, pad: false }, 2),
            ("dev1/<=5calls", ChainH { max_calls: 5, cuts: Cuts::Dev, hold: false, sizes: vec![8], pend: true, max_cont: 2, pad: false }, 1),
            ("natural/<=6calls", ChainH { max_calls: 6, cuts: Cuts::Dev, hold: false, sizes: vec![8], pend: false, max_cont: 1, pad: false }, 0),
        ],
    };
    let mut plan = plan;
    // a peer that pads its replies with extra NUL bytes (a NUL where a message would start is
    // padding to the connection): the owed replies are the same
    plan.push(("padded-replies/dev/<=3calls", ChainH { max_calls: 3, cuts: Cuts::Dev, hold: false, sizes: vec![8], pend: false, max_cont: 1, pad: true }, tier.pick(1, 2)));
    rep.require_goal("replies-padded-with-extra-NULs");
    for (name, h, budget) in plan {
        let cfg = Config { budget, max_wall: wall, ..Default::default() };
        rep.add(explore(name, h.config(), &h, &cfg));
    }
    rep.require_goal("generated-chain-starts-with-a-more-method-without-arguments");
    rep.add(xplore::sweep("generated-chain-methods", PROXY_CHAIN_CASES, &Config { max_wall: wall, ..Default::default() }, proxy_chain_case));
    rep.require_goal("chain-with-calls-of-every-size");
    rep.add(xplore::sweep("chains-of-every-size", tier.pick(601, 1501), &Config { max_wall: wall, ..Default::default() }, padded_chain_case));
    rep.require_goal("chain-after-a-refused-call");
    rep.add(xplore::sweep("chains-after-refused-calls", REFUSED_CASES, &Config { max_wall: wall, ..Default::default() }, refused_chain_case));
    rep.require_goal("chain-larger-than-64KiB");
    let totals = large_chain_totals(tier);
    let cfg = Config { max_wall: wall, ..Default::default() };
    rep.add(xplore::sweep("large-chains", (totals.len() * LARGE_CHAIN_FORMS.len()) as u64, &cfg, |i, s| large_chain_case(&totals, i, s)));
    rep.finish()
}

pub fn run_c11(tier: Tier) -> i32 {
    let mut rep = Report::new("C11", tier.name());
    rep.rule = "the C06 space (chains of <=3/4 calls, reply scripts, trailing frame, arrival chunkings) with the payload size of every reply a free choice from the size alphabet (sizes that fit the 256-byte buffer and sizes that force one or more growth steps) and EVERY yielded item held while all later ones are obtained; the peer pads every reply with 0, 1 or 3 extra NUL bytes, may hang up after its first reply or inside its second one, and the caller may drop the stream after any number of items (what it was given borrows from the connection). The harness's allocator always moves a block on realloc, so buffer growth deterministically releases the old block. Outcomes are distinct item sequences".into();
    rep.assumptions = vec![
        "the allocator may move a block whenever it is grown (the harness's allocator always does)".into(),
        "a held &str is damaged if its memory was released, if a later transport read wrote over it, or if its content differs from the content it had when yielded; freed memory is never dereferenced by the harness".into(),
    ];
    for g in ["stream-dropped-with-replies-still-owed", "peer-hangs-up-while-items-are-held", "replies-padded-with-extra-NULs", "item-held-across-a-later-read", "item-held-while-rest-is-buffered", "replies-in-separate-reads", "replies-coalesced-in-one-read", "more-call-with-continuing-replies"] {
        rep.require_goal(g);
    }
    let wall = std::time::Duration::from_secs(tier.pick(60, 900));
    let plan: Vec<(&str, ChainH, u32)> = match tier {
        Tier::Quick => vec![
            ("hold-inter/<=2calls", ChainH { max_calls: 2, cuts: Cuts::FreeInter, hold: true, sizes: vec![20, 300], pend: false, max_cont: 2, pad: true }, 1),
            ("hold-dev/<=3calls", ChainH { max_calls: 3, cuts: Cuts::Dev, hold: true, sizes: vec![20, 300], pend: false, max_cont: 1, pad: true }, 1),
            // replies of about 110 bytes: two and a bit of them fill the initial buffer, so that the
            // beginning of a reply can be longer than the room left behind it
            ("hold-dev/<=2calls/110-byte-replies", ChainH { max_calls: 2, cuts: Cuts::Dev, hold: true, sizes: vec![64, 70], pend: false, max_cont: 2, pad: false }, 1),
        ],
        Tier::Thorough => vec![
            // (three calls x four sizes x padding x hang-ups x dropped streams is beyond 5 * 10^8
            // executions: the product is split)
            ("hold-inter/<=3calls", ChainH { max_calls: 3, cuts: Cuts::FreeInter, hold: true, sizes: vec![20, 300], pend: false, max_cont: 1, pad: false }, 1),
            ("hold-inter/<=2calls/4-sizes", ChainH { max_calls: 2, cuts: Cuts::FreeInter, hold: true, sizes: vec![20, 200, 300, 600], pend: false, max_cont: 1, pad: true }, 1),
            ("hold-dev/<=3calls", ChainH { max_calls: 3, cuts: Cuts::Dev, hold: true, sizes: vec![20, 300], pend: false, max_cont: 1, pad: true }, 2),
            ("hold-dev/<=3calls/110-byte-replies", ChainH { max_calls: 3, cuts: Cuts::Dev, hold: true, sizes: vec![64, 70], pend: false, max_cont: 2, pad: false }, 2),
        ],
    };
    for (name, h, budget) in plan {
        let cfg = Config { budget, max_wall: wall, ..Default::default() };
        rep.add(explore(name, h.config(), &h, &cfg));
    }
    let ps = ProxyStreamH { max_replies: tier.pick(3, 5), sizes: tier.pick(vec![20, 300], vec![20, 200, 300, 600]) };
    let cfg = Config { max_wall: wall, ..Default::default() };
    rep.add(explore("proxy-more-method/hold", json!({"proxy_stream": true, "max_replies": ps.max_replies, "sizes": ps.sizes}), &ps, &cfg));
    rep.finish()
}

pub fn replay(v: &Value) -> Replayed {
    if v["case"]["group"] == "padded-chain" {
        let idx = v["case"]["index"].as_u64().unwrap_or(0);
        let st = xplore::sweep_one("chains-of-every-size", idx, &Config { threads: 1, ..Default::default() }, padded_chain_case);
        return match st.violations.into_iter().next() {
            Some((class, rec)) => Replayed::Fail { trace: vec![format!("case {}", v["case"])], class, detail: rec.detail },
            None => Replayed::Pass(vec![format!("case {}", v["case"])]),
        };
    }
    if v["case"]["group"] == "refused-then-chain" {
        let idx = v["case"]["index"].as_u64().unwrap_or(0);
        let st = xplore::sweep_one("chains-after-refused-calls", idx, &Config { threads: 1, ..Default::default() }, refused_chain_case);
        return match st.violations.into_iter().next() {
            Some((class, rec)) => Replayed::Fail { trace: vec![format!("case {}", v["case"])], class, detail: rec.detail },
            None => Replayed::Pass(vec![format!("case {}", v["case"])]),
        };
    }
    if v["case"]["group"] == "proxy-chain" {
        let idx = v["case"]["index"].as_u64().unwrap_or(0);
        let st = xplore::sweep_one("generated-chain-methods", idx, &Config { threads: 1, ..Default::default() }, proxy_chain_case);
        return match st.violations.into_iter().next() {
            Some((class, rec)) => Replayed::Fail { trace: vec![format!("case {}", v["case"])], class, detail: rec.detail },
            None => Replayed::Pass(vec![format!("case {}", v["case"])]),
        };
    }
    if v["case"]["group"] == "large-chain" {
        let idx = v["case"]["index"].as_u64().unwrap_or(0);
        let totals = large_chain_totals(Tier::Thorough);
        let st = xplore::sweep_one("large-chains", idx, &Config { threads: 1, ..Default::default() }, |i, s| large_chain_case(&totals, i, s));
        return match st.violations.into_iter().next() {
            Some((class, rec)) => Replayed::Fail { trace: vec![format!("case {}", v["case"])], class, detail: rec.detail },
            None => Replayed::Pass(vec![format!("case {}", v["case"])]),
        };
    }
    if v["harness"]["proxy_stream"] == true {
        let h = ProxyStreamH { max_replies: v["harness"]["max_replies"].as_u64().unwrap_or(3) as usize, sizes: v["harness"]["sizes"].as_array().map(|a| a.iter().map(|x| x.as_u64().unwrap_or(20) as usize).collect()).unwrap_or_else(|| vec![20, 300]) };
        return replay_dfs(&h, v);
    }
    match ChainH::from_config(&v["harness"]) {
        Some(h) => replay_dfs(&h, v),
        None => Replayed::Error("cannot rebuild the chain harness from the replay file".into()),
    }
}
