//! C13 (the IDL parser accepts exactly the grammar and builds the denoted tree) and
//! C14 (render ∘ parse is the identity, also end to end through GetInterfaceDescription).
//!
//! Positives come from a generator that enumerates reference trees and layouts; negatives are every
//! single mutation of such texts and every short token string.  The oracle is the three-valued
//! reference recogniser of `idlref`.

use crate::common::{replay_dfs, Replayed, Tier};
use simnet::idlref::*;
use serde_json::{json, Value};
use simnet::{complete, complete_or_stall, Wire};
use xplore::report::Report;
use xplore::{explore, sweep, Config, Ctx, Harness, Verdict, H64};
use zlink_core::idl::Interface;
use zlink_core::varlink_service::{InterfaceDescription, Proxy};

const IFACE_NAMES: [&str; 6] = ["a.b", "org.example.x-y", "A9.b--c.d0", "x.9", "Z.z.z.z", "a-b.c9-d"];
const TYPE_NAMES: [&str; 4] = ["T", "Ab9", "ZZ", "Q0x"];
const FIELD_NAMES: [&str; 4] = ["a", "b_c", "X9", "d_1_e"];
const VARIANT_NAMES: [&str; 3] = ["one", "t_2", "Up"];
/// Comment texts: plain, empty, and texts that look like IDL (brackets before and after a colon, a
/// colon alone, a closing bracket alone, keywords).  Which text lands on which position rotates with
/// a per-execution offset, so that every position gets every text.
const COMMENTS: [&str; 9] = ["c", "note: (a, b) -> x # y", "", "type T (x: int)", "the name (may be absent)", "red: the warm one", ") -> (", "#42 is the answer", "# Errors"];

#[derive(Clone, Debug)]
struct Gen {
    max_members: usize,
    max_fields: usize,
    type_budget: usize,
    /// 0 = no comments, 1 = every subset of commentable positions gets one comment
    comments: u8,
    variant_comments: bool,
    layouts: Vec<Layout>,
    iface_names: usize,
    /// which comment text lands on which position rotates with a per-execution offset
    rotate: bool,
    /// member lists may also be long: 12 variants / 9 fields with long names (a rendering wider
    /// than any line-length limit somebody might pick)
    wide: bool,
}

impl Gen {
    fn to_json(&self) -> Value {
        json!({"max_members": self.max_members, "max_fields": self.max_fields, "type_budget": self.type_budget, "comments": self.comments, "variant_comments": self.variant_comments,
            "layouts": self.layouts.iter().map(|l| format!("{l:?}")).collect::<Vec<_>>(), "iface_names": self.iface_names, "rotate": self.rotate, "wide": self.wide})
    }
    fn from_json(v: &Value) -> Option<Gen> {
        Some(Gen {
            max_members: v["max_members"].as_u64()? as usize,
            max_fields: v["max_fields"].as_u64()? as usize,
            type_budget: v["type_budget"].as_u64()? as usize,
            comments: v["comments"].as_u64()? as u8,
            variant_comments: v["variant_comments"].as_bool()?,
            layouts: v["layouts"].as_array()?.iter().map(|l| *LAYOUTS.iter().find(|x| format!("{x:?}") == l.as_str().unwrap()).unwrap()).collect(),
            iface_names: v["iface_names"].as_u64()? as usize,
            rotate: v["rotate"].as_bool().unwrap_or(false),
            wide: v["wide"].as_bool().unwrap_or(false),
        })
    }

    fn gen_type(&self, cx: &Ctx, budget: &mut usize, allow_optional: bool) -> RType {
        let leaves = 6;
        let wrappers = if *budget > 0 { 5 } else { 0 };
        let c = cx.choose(leaves + wrappers, "type");
        match c {
            0 => RType::Bool,
            1 => RType::Int,
            2 => RType::Float,
            3 => RType::String,
            4 => RType::Object,
            5 => RType::Custom("Ab9".into()),
            _ => {
                *budget -= 1;
                match c - leaves {
                    0 if allow_optional => RType::Optional(Box::new(self.gen_type(cx, budget, false))),
                    0 => RType::Array(Box::new(RType::Optional(Box::new(RType::Int)))),
                    1 => RType::Array(Box::new(self.gen_type(cx, budget, true))),
                    2 => RType::Map(Box::new(self.gen_type(cx, budget, true))),
                    3 => {
                        let n = cx.choose(3, "inline-struct:fields");
                        RType::Struct((0..n).map(|k| RField { comments: vec![], name: FIELD_NAMES[k + 1].into(), ty: self.gen_type(cx, budget, true) }).collect())
                    }
                    _ => {
                        let n = 1 + cx.choose(2, "inline-enum:variants-1");
                        RType::Enum((0..n).map(|k| RVariant { comments: vec![], name: VARIANT_NAMES[k].into() }).collect())
                    }
                }
            }
        }
    }
    fn comment(&self, cx: &Ctx, k: &mut usize, with: bool) -> Vec<String> {
        if !with || self.comments == 0 {
            return vec![];
        }
        let n = cx.choose(2, "comment?");
        *k += 1;
        if n == 0 {
            vec![]
        } else if *k % 5 == 0 {
            vec![COMMENTS[*k % COMMENTS.len()].to_string(), COMMENTS[(*k + 1) % COMMENTS.len()].to_string()]
        } else {
            vec![COMMENTS[*k % COMMENTS.len()].to_string()]
        }
    }
    fn fields(&self, cx: &Ctx, budget: &mut usize, k: &mut usize, with: bool) -> Vec<RField> {
        let c = cx.choose(self.max_fields + 1 + self.wide as usize, "fields");
        if c > self.max_fields {
            cx.goal("long-member-list");
            return (0..9).map(|j| RField { comments: if j == 4 { self.comment(cx, k, with) } else { vec![] }, name: format!("field_with_a_long_name_{j}"), ty: if j % 2 == 0 { RType::String } else { RType::Int } }).collect();
        }
        let n = c;
        (0..n).map(|j| RField { comments: self.comment(cx, k, with), name: FIELD_NAMES[j].into(), ty: self.gen_type(cx, budget, true) }).collect()
    }
    fn gen(&self, cx: &Ctx) -> (RIface, Layout) {
        let layout = self.layouts[cx.choose(self.layouts.len(), "layout")];
        let with = layout == Layout::Lines;
        let mut k = if with && self.comments != 0 && self.rotate { cx.choose(COMMENTS.len(), "comment-texts:rotation") } else { 0 };
        let name = IFACE_NAMES[cx.choose(self.iface_names, "interface-name")].to_string();
        let comments = self.comment(cx, &mut k, with);
        let nm = cx.choose(self.max_members + 1, "members");
        let mut budget = self.type_budget;
        let mut members = Vec::new();
        for j in 0..nm {
            let kind = cx.choose(4, "member:type-struct|type-enum|method|error");
            let c = self.comment(cx, &mut k, with);
            let kind = match kind {
                0 => RKind::TypeStruct(self.fields(cx, &mut budget, &mut k, with)),
                1 => {
                    let c = cx.choose(2 + self.wide as usize, "enum:variants-1");
                    if c == 2 {
                        cx.goal("long-member-list");
                        RKind::TypeEnum((0..12).map(|v| RVariant { comments: vec![], name: format!("variant_number_{v}") }).collect())
                    } else {
                        let n = 1 + c;
                        RKind::TypeEnum((0..n).map(|v| RVariant { comments: self.comment(cx, &mut k, with && self.variant_comments), name: VARIANT_NAMES[v].into() }).collect())
                    }
                }
                2 => RKind::Method(self.fields(cx, &mut budget, &mut k, with), self.fields(cx, &mut budget, &mut k, with)),
                _ => RKind::Error(self.fields(cx, &mut budget, &mut k, with)),
            };
            members.push(RMember { comments: c, name: TYPE_NAMES[j].into(), kind });
        }
        (RIface { comments, name, members }, layout)
    }
}

/// Coarse kind of the reference recogniser's complaint (part of the violation class, so that
/// different grammar holes are different findings).
fn reject_kind(why: &str) -> &'static str {
    if why.contains("not an interface name") {
        "bad-interface-name"
    } else if why.contains("not a field name") {
        "bad-field-name"
    } else if why.contains("not a type name") {
        "bad-type-name"
    } else if why.contains("expected a member") {
        "garbage-where-a-member-should-start"
    } else if why.contains("expected `") {
        "missing-token"
    } else if why.contains("no type at") {
        "missing-type"
    } else if why.contains("mixed typed") {
        "mixed-struct-and-enum"
    } else {
        "other"
    }
}

fn zparse(text: &str) -> Result<Interface<'_>, String> {
    Interface::try_from(text).map_err(|e| format!("{e}"))
}

/// Judge zlink's answer for `text` against the reference.
fn judge(text: &str) -> Result<&'static str, (String, String)> {
    let class = classify(text);
    let got = zparse(text);
    let shown = || simnet::show(text.as_bytes());
    match (class, got) {
        (Class::MustAccept(t), Ok(i)) => {
            let l = lift(&i);
            if l == t.by_kind() {
                Ok("accepted, tree equal")
            } else if l.without_comments() == t.by_kind().without_comments() {
                Err(("idlparse:comments-differ".into(), format!("text `{}`: parsed {l:?}, denotes {:?}", shown(), t.by_kind())))
            } else {
                Err(("idlparse:wrong-tree".into(), format!("text `{}`: parsed {l:?}, denotes {:?}", shown(), t.by_kind())))
            }
        }
        (Class::MustAccept(_), Err(e)) => Err(("idlparse:valid-text-rejected".into(), format!("text `{}` follows the grammar but: {e}", shown()))),
        (Class::MustReject(why), Ok(i)) => Err((format!("idlparse:invalid-text-accepted:{}", reject_kind(&why)), format!("text `{}` is not derivable from the grammar ({why}) but parsed as {:?}", shown(), lift(&i)))),
        (Class::MustReject(_), Err(_)) => Ok("rejected"),
        (Class::DontCare(t), Ok(i)) => {
            if lift(&i).without_comments() == t.by_kind().without_comments() {
                Ok("dont-care: accepted, tree equal")
            } else {
                Err(("idlparse:accepted-while-ignoring-part".into(), format!("text `{}`: parsed {:?}, denotes {:?}", shown(), lift(&i).without_comments(), t.by_kind().without_comments())))
            }
        }
        (Class::DontCare(_), Err(_)) => Ok("dont-care: rejected"),
    }
}

// ---- C13 positives -------------------------------------------------------------------------------

struct Positives(Gen);
impl Harness for Positives {
    fn run(&self, cx: &Ctx) -> Verdict {
        let (iface, layout) = self.0.gen(cx);
        let text = render(&iface, layout);
        cx.log(|| format!("layout {layout:?}; text:\n{text}"));
        match classify(&text) {
            Class::MustAccept(t) if t == iface => {}
            other => xplore::bug!("generator and reference recogniser disagree on `{}`: {other:?} vs {iface:?}", simnet::show(text.as_bytes())),
        }
        match layout {
            Layout::Lines if iface != iface.without_comments() => cx.goal("comment-lines"),
            Layout::Crlf => cx.goal("crlf"),
            Layout::Minimal => cx.goal("no-optional-whitespace"),
            _ => {}
        }
        if iface.members.len() >= 2 {
            cx.goal("several-members");
        }
        match judge(&text) {
            Ok(_) => {
                cx.state(xplore::hash_of(&format!("{:?}", iface.without_comments())));
                Verdict::Pass(xplore::hash_of(&text))
            }
            Err((class, detail)) => Verdict::Fail(xplore::Violation { class, detail }),
        }
    }
}

// ---- C13 negatives: every single mutation -------------------------------------------------------

fn tokens(text: &str) -> Vec<&str> {
    // words, runs of whitespace, single punctuation characters ("->", "[]" and "[string]" kept whole)
    let b = text.as_bytes();
    let mut out = Vec::new();
    let mut i = 0;
    while i < b.len() {
        let start = i;
        if b[i].is_ascii_alphanumeric() || b[i] == b'_' {
            while i < b.len() && (b[i].is_ascii_alphanumeric() || b[i] == b'_' || b[i] == b'.' || b[i] == b'-') {
                i += 1;
            }
        } else if b[i].is_ascii_whitespace() {
            while i < b.len() && b[i].is_ascii_whitespace() {
                i += 1;
            }
        } else if text[i..].starts_with("->") || text[i..].starts_with("[]") {
            i += 2;
        } else if text[i..].starts_with("[string]") {
            i += 8;
        } else if b[i] == b'#' {
            while i < b.len() && b[i] != b'\n' {
                i += 1;
            }
        } else {
            i += text[i..].chars().next().map_or(1, |c| c.len_utf8());
        }
        out.push(&text[start..i]);
    }
    out
}

const INSERTS: [&str; 10] = ["!", "\u{e9}", "\0", "(", ")", ":", ",", "_", "-", "."];

struct Mutants(Gen);
impl Harness for Mutants {
    fn run(&self, cx: &Ctx) -> Verdict {
        let (iface, layout) = self.0.gen(cx);
        let text = render(&iface, layout);
        let toks = tokens(&text);
        let kind = cx.choose(5, "mutation:delete|duplicate|swap|insert|truncate");
        let mutant: String = match kind {
            0 => {
                let i = cx.choose(toks.len(), "token");
                toks.iter().enumerate().filter(|(j, _)| *j != i).map(|(_, t)| *t).collect()
            }
            1 => {
                let i = cx.choose(toks.len(), "token");
                toks.iter().enumerate().flat_map(|(j, t)| if j == i { vec![*t, *t] } else { vec![*t] }).collect()
            }
            2 => {
                if toks.len() < 2 {
                    return Verdict::Pass(0);
                }
                let i = cx.choose(toks.len() - 1, "token-pair");
                let mut v = toks.clone();
                v.swap(i, i + 1);
                v.concat()
            }
            3 => {
                let at = cx.choose(text.len() + 1, "byte");
                if !text.is_char_boundary(at) {
                    return Verdict::Pass(0);
                }
                let c = INSERTS[cx.choose(INSERTS.len(), "inserted-char")];
                format!("{}{c}{}", &text[..at], &text[at..])
            }
            _ => {
                let at = cx.choose(text.len(), "byte");
                if !text.is_char_boundary(at) {
                    return Verdict::Pass(0);
                }
                text[..at].to_string()
            }
        };
        cx.log(|| format!("original:\n{text}\nmutant ({}):\n{}", ["delete", "duplicate", "swap", "insert", "truncate"][kind], simnet::show(mutant.as_bytes())));
        match judge(&mutant) {
            Ok(how) => {
                cx.goal(match how {
                    "rejected" => "mutant-must-be-rejected",
                    "accepted, tree equal" => "mutant-still-valid",
                    _ => "mutant-in-dont-care-zone",
                });
                cx.state(xplore::hash_of(&mutant));
                Verdict::Pass(H64::new().s(how).u(kind as u64).get())
            }
            Err((class, detail)) => Verdict::Fail(xplore::Violation { class, detail }),
        }
    }
}

// ---- C13 negatives: every short token string -----------------------------------------------------

const TOKS: [&str; 13] = ["type", "method", "error", "T", "a", "(", ")", ":", ",", "->", "int", "#c\n", "?[]"];
struct TokenStrings {
    max: usize,
}
impl Harness for TokenStrings {
    fn run(&self, cx: &Ctx) -> Verdict {
        let n = 1 + cx.choose(self.max, "tokens-1");
        let mut text = String::from("interface a.b\n");
        for _ in 0..n {
            text.push_str(TOKS[cx.choose(TOKS.len(), "token")]);
            text.push(' ');
        }
        match judge(&text) {
            Ok(how) => {
                cx.goal(if how == "rejected" { "token-string-must-be-rejected" } else { "token-string-valid-or-dont-care" });
                Verdict::Pass(H64::new().s(how).get())
            }
            Err((class, detail)) => Verdict::Fail(xplore::Violation { class, detail }),
        }
    }
}

pub fn run_c13(tier: Tier) -> i32 {
    let mut rep = Report::new("C13", tier.name());
    rep.rule = "positives: DFS over reference trees (interface name x members from {type-struct, type-enum, method, error} x field lists x type trees within a global budget of wrapper/inline nodes x comment on every subset of commentable positions; in the comment-texts phases every one of nine comment texts, incl. texts that look like IDL, on every position) x layouts {no optional whitespace, single spaces, newline+tab between tokens, CRLF, one field per line with comment lines}; the text comes from the harness's own renderer. Negatives: for every tree of a smaller bound, every single mutation (delete / duplicate each token, swap each adjacent pair, insert each of 10 characters at each byte, truncate at each byte) and every string of <=4/5 tokens over a 13-token alphabet after `interface a.b`. Deep nesting: four kinds of types nested 64 / 512 / 2048 levels (must parse and round-trip) and 16384 / 65536 levels (must not kill the process; rejecting them is accepted), each in a child process with an 8 MiB stack. Every text is classified by a reference recogniser written from the grammar: must-accept (tree compared incl. comments), must-reject, or don't-care (derivable only with comments/layout the statement does not name: either answer passes, but an accepted tree must still equal the denoted one)".into();
    rep.assumptions = vec![
        "the Varlink grammar as published on varlink.org; members may share a line only in the don't-care zone; `()` in type position is an empty struct".into(),
        "comment text is compared modulo surrounding whitespace".into(),
        "termination is enforced by the engine's wall-clock cap, not by a per-parse watchdog".into(),
    ];
    for g in ["comment-lines", "crlf", "no-optional-whitespace", "several-members", "mutant-must-be-rejected", "mutant-still-valid", "token-string-must-be-rejected"] {
        rep.require_goal(g);
    }
    // (the thorough tier runs hundreds of millions of distinct descriptions: the sets of distinct states /
    // outcomes are capped there - the counts become lower bounds, which the evidence says - so that
    // they do not take tens of gigabytes)
    let cfg = Config { max_wall: std::time::Duration::from_secs(tier.pick(60, 600)), set_cap: tier.pick(40_000_000, 3_000_000), ..Default::default() };
    let all = LAYOUTS.to_vec();
    let g = |max_members, max_fields, type_budget, comments, layouts: &[Layout], iface_names| Gen { max_members, max_fields, type_budget, comments, variant_comments: comments == 1, layouts: layouts.to_vec(), iface_names, rotate: false, wide: false };
    let four = [Layout::Minimal, Layout::Spaced, Layout::NewlinesTabs, Layout::Crlf];
    let plan_pos: Vec<(&str, Gen)> = match tier {
        Tier::Quick => vec![
            ("positives/<=2members,<=1field,budget1/4-layouts", g(2, 1, 1, 0, &four, 1)),
            ("positives/<=1member,<=2fields,budget2/4-layouts", g(1, 2, 2, 0, &four, 1)),
            ("positives/comments/<=2members,<=1field,budget0", g(2, 1, 0, 1, &[Layout::Lines], 1)),
            ("positives/comments/<=1member,<=2fields,budget0", g(1, 2, 0, 1, &[Layout::Lines], 1)),
            ("positives/names/<=1member,<=1field,budget1/5-layouts", g(1, 1, 1, 0, &all, 6)),
        ],
        Tier::Thorough => vec![
            ("positives/<=3members,<=1field,budget1/4-layouts", g(3, 1, 1, 0, &four, 1)),
            // (two members with two fields each and composite types are ~10^9 texts per layout: the
            // product is taken at budget 0, the composite types with one member or one field)
            ("positives/<=2members,<=2fields,budget0/4-layouts", g(2, 2, 0, 0, &four, 1)),
            ("positives/<=1member,<=2fields,budget2/4-layouts", g(1, 2, 2, 0, &four, 1)),
            ("positives/<=1member,<=2fields,budget3/2-layouts", g(1, 2, 3, 0, &[Layout::Spaced, Layout::Crlf], 1)),
            ("positives/comments/<=2members,<=1field,budget1", g(2, 1, 1, 1, &[Layout::Lines], 1)),
            ("positives/names/<=1member,<=2fields,budget1/5-layouts", g(1, 2, 1, 0, &all, 6)),
        ],
    };
    let mut plan_pos = plan_pos;
    // every comment text (incl. texts that look like IDL) on every commentable position
    plan_pos.push(("positives/comment-texts/<=1member,<=2fields,budget0", Gen { rotate: true, ..g(1, 2, 0, 1, &[Layout::Lines], 1) }));
    plan_pos.push(("positives/long-lists/<=2members,<=1field,budget0/5-layouts", Gen { wide: true, ..g(2, 1, 0, 1, &all, 1) }));
    if tier == Tier::Thorough {
        plan_pos.push(("positives/comment-texts/<=2members,<=1field,budget0", Gen { rotate: true, ..g(2, 1, 0, 1, &[Layout::Lines], 1) }));
    }
    for (name, g) in plan_pos {
        rep.add(explore(name, json!({"what": "positives", "gen": g.to_json()}), &Positives(g), &cfg));
    }
    let plan_mut: Vec<(&str, Gen)> = match tier {
        Tier::Quick => vec![
            ("mutants/<=1member,<=1field,budget1/spaced", g(1, 1, 1, 0, &[Layout::Spaced], 1)),
            ("mutants/2members,<=1field,budget0/minimal", g(2, 1, 0, 0, &[Layout::Minimal], 1)),
            ("mutants/<=1member,<=1field,budget0/lines+comments", g(1, 1, 0, 1, &[Layout::Lines], 1)),
        ],
        Tier::Thorough => vec![
            ("mutants/<=2members,<=1field,budget1/spaced+minimal", g(2, 1, 1, 0, &[Layout::Spaced, Layout::Minimal], 1)),
            ("mutants/<=1member,<=2fields,budget1/spaced", g(1, 2, 1, 0, &[Layout::Spaced], 1)),
            ("mutants/<=2members,<=1field,budget0/lines+comments,crlf", g(2, 1, 0, 1, &[Layout::Lines, Layout::Crlf], 2)),
        ],
    };
    for (name, g) in plan_mut {
        rep.add(explore(name, json!({"what": "mutants", "gen": g.to_json()}), &Mutants(g), &cfg));
    }
    let max = tier.pick(4, 5);
    rep.add(explore(&format!("token-strings/<={max}"), json!({"what": "tokens", "max": max}), &TokenStrings { max }, &cfg));
    // deep nesting, each text parsed (and rendered and parsed back) in a child process on a thread
    // with an 8 MiB stack: `[]`^d int, `[string]`^d int, inline structs nested d deep, (`?[]`)^d int
    {
        let exe = std::env::current_exe().expect("current_exe");
        let moderate: [usize; 3] = [64, 512, 2048];
        let extreme: [usize; 4] = [65536, 65536, 16384, 65536];
        let cases: Vec<(usize, usize, bool)> = (0..4usize).flat_map(|k| moderate.iter().map(move |d| (k, *d, false)).chain(std::iter::once((k, extreme[k], true)))).collect();
        let kinds = ["`[]` repeated", "`[string]` repeated", "inline structs nested", "`?[]` repeated"];
        rep.add(sweep("deep-nesting(child processes)", cases.len() as u64, &Config { threads: 4, ..cfg.clone() }, |i, sink| {
            let (kind, depth, extreme) = cases[i as usize];
            let case = json!({"what": "deep", "kind": kind, "depth": depth});
            let out = std::process::Command::new(&exe).arg("idl-deep").arg(depth.to_string()).arg(kind.to_string()).stdout(std::process::Stdio::null()).stderr(std::process::Stdio::null()).status();
            let what = format!("a type with {} {depth} times", kinds[kind]);
            match out.map(|s| s.code()) {
                Ok(Some(0)) => sink.pass(H64::new().u(kind as u64).u(depth as u64).get()),
                // beyond a few thousand levels a resource limit is a legitimate answer
                Ok(Some(3)) if extreme => sink.pass(H64::new().u(kind as u64).u(depth as u64).u(3).get()),
                Ok(Some(3)) => sink.fail("idlparse:valid-text-rejected", format!("{what} was rejected"), case),
                Ok(Some(4)) => sink.fail("idlround:rendered-text-not-parseable", format!("{what} parsed, but its rendering did not parse back"), case),
                Ok(Some(c)) => sink.fail("idlparse:deep-nesting-child-failed", format!("{what}: child exit code {c}"), case),
                Ok(None) => sink.fail("idlparse:stack-overflow-on-a-deeply-nested-type", format!("{what} (a text of {} KB) killed the process: the recursive-descent parser (and the recursive Display / Drop of the tree) exhausted an 8 MiB stack", depth * [2, 8, 5, 3][kind] / 1024), case),
                Err(e) => xplore::bug!("cannot run the child {}: {e} (exists: {})", exe.display(), exe.exists()),
            }
        }));
    }
    // supplement (sampling, labelled): byte soup
    let seed = rep.seed;
    let n = tier.pick(300_000u64, 5_000_000u64);
    let st = sweep("SUPPLEMENT-sampled-byte-soup(seeded, not part of the exhaustive claim)", n, &cfg, |i, s| {
        let mut x = (i ^ seed).wrapping_mul(0x9e3779b97f4a7c15) | 1;
        let pool: [&str; 24] = ["interface ", "a.b", "\n", " ", "type ", "method ", "error ", "T", "a", "(", ")", ":", ",", "->", "int", "?", "[]", "[string]", "# c\n", "\u{e9}", "\0", "_", "-", "."];
        let len = 2 + (x % 14) as usize;
        let mut text = String::from("interface a.b\n");
        for _ in 0..len {
            x ^= x << 13;
            x ^= x >> 7;
            x ^= x << 17;
            text.push_str(pool[(x % 24) as usize]);
        }
        match judge(&text) {
            Ok(how) => s.pass(xplore::hash_of(&how)),
            Err((c, d)) => s.fail(c, d, json!({"text": text})),
        }
    });
    rep.extra.insert("supplementary_sampled".into(), json!({"cases": st.evals, "seed": seed, "note": "pseudo-random token/byte soup after a valid header; sampling, not enumeration"}));
    rep.add(st);
    rep.finish()
}

// ---- C14 ---------------------------------------------------------------------------------------------

struct RoundTrip {
    gen: Gen,
    exchange: bool,
}

fn round_trip(iface: &RIface, exchange: bool) -> Result<(), (String, String)> {
    let want = iface.by_kind();
    let z = lower(iface);
    let text = z.to_string();
    // parse, compare deeply, render again
    let local = |parse_this: &str| -> Result<(), (String, String)> {
        let parsed = match zparse(parse_this) {
            Ok(p) => p,
            Err(e) => return Err(("idlround:rendered-text-not-parseable".to_string(), format!("description {want:?} renders as `{}` which does not parse: {e}", simnet::show(text.as_bytes())))),
        };
        let back = lift(&parsed);
        if back != want {
            let class = if back.without_comments() == want.without_comments() { "idlround:comments-lost-or-changed" } else { "idlround:parse-of-render-differs" };
            return Err((class.to_string(), format!("description {want:?} renders as `{}` and parses back as {back:?}", simnet::show(text.as_bytes()))));
        }
        let text2 = parsed.to_string();
        if text2 != text {
            return Err(("idlround:second-render-differs".into(), format!("`{}` vs `{}`", simnet::show(text.as_bytes()), simnet::show(text2.as_bytes()))));
        }
        Ok(())
    };
    let node = if iface.has_commented_variant() { ":custom-enum-with-commented-variant" } else { "" };
    if let Err((class, detail)) = local(&text) {
        if node.is_empty() {
            return Err((class, detail));
        }
        // The listed finding: an enum with a commented variant is rendered without the commas
        // between its variants.  It covers this description only if putting those commas in is all
        // it takes; whatever is still wrong then is something else and is reported as such.
        return match local(&simnet::idlref::add_missing_enum_commas(&text)) {
            Ok(()) => Err((format!("{class}{node}"), detail)),
            Err((c2, d2)) => Err((c2, format!("(with the commas the enum rendering lacks put in) {d2}"))),
        };
    }
    if exchange {
        // service side: the reply to GetInterfaceDescription goes through a real connection ...
        let sw = Wire::new(0, None);
        let mut sconn = sw.connection();
        let desc = InterfaceDescription::from(&z);
        complete(sconn.send_reply(&zlink_core::Reply::new(Some(desc)).set_continues(Some(false)))).map_err(|e| ("idlround:exchange-send-failed".to_string(), format!("{e:?}")))?;
        // ... and the client parses what arrives
        let cw = Wire::new(1, None);
        cw.arrive(&sw.written());
        let mut cconn = cw.connection();
        let r = complete_or_stall(cconn.get_interface_description(&iface.name));
        match r {
            Some(Ok(Ok(d))) => match d.parse() {
                Ok(p) => {
                    let got = lift(&p);
                    if got != want {
                        return Err((format!("idlround:exchange-description-differs{node}"), format!("service described {want:?}, client parsed {got:?}")));
                    }
                }
                Err(e) => return Err((format!("idlround:exchange-description-not-parseable{node}"), format!("service described {want:?}; client: {e}"))),
            },
            other => return Err(("idlround:exchange-failed".into(), format!("{other:?}"))),
        }
        // the call the proxy sent is the standard one
        let sent = cw.written();
        let v: Value = serde_json::from_slice(&sent[..sent.len().saturating_sub(1)]).unwrap_or(Value::Null);
        if v != json!({"method": "org.varlink.service.GetInterfaceDescription", "parameters": {"interface": iface.name}}) {
            return Err(("idlround:exchange-wrong-call".into(), format!("{v}")));
        }
    }
    Ok(())
}

impl Harness for RoundTrip {
    fn run(&self, cx: &Ctx) -> Verdict {
        // the layout choice of the generator only switches comments on (Lines) or off
        let (iface, layout) = self.gen.gen(cx);
        cx.log(|| format!("description: {iface:?}"));
        if layout == Layout::Lines && iface != iface.without_comments() {
            cx.goal("description-with-comments");
        }
        if iface.has_commented_variant() {
            cx.goal("enum-with-commented-variant");
        }
        if iface.members.iter().any(|m| matches!(&m.kind, RKind::TypeStruct(f) | RKind::Error(f) if f.is_empty())) {
            cx.goal("empty-member-list");
        }
        // (a) built through the public constructors
        if let Err((class, detail)) = round_trip(&iface, self.exchange) {
            cx.soft_fail(class, detail);
        }
        // (b) produced by the parser itself, from the harness's own text
        let text = render(&iface, layout);
        if let Ok(p) = zparse(&text) {
            let t2 = p.to_string();
            match zparse(&t2) {
                Ok(p2) => {
                    if lift(&p2) != lift(&p) || p2.to_string() != t2 {
                        cx.soft_fail("idlround:parser-output-does-not-round-trip", format!("`{}` -> `{}`", simnet::show(text.as_bytes()), simnet::show(t2.as_bytes())));
                    }
                }
                Err(e) => {
                    // as above: the listed finding covers it only if the missing commas are all that is wrong
                    let only_commas = iface.has_commented_variant() && zparse(&simnet::idlref::add_missing_enum_commas(&t2)).map_or(false, |p2| lift(&p2) == lift(&p) && p2.to_string() == t2);
                    cx.soft_fail(
                        format!("idlround:rendered-text-not-parseable{}", if only_commas { ":custom-enum-with-commented-variant" } else { "" }),
                        format!("parser output for `{}` renders as `{}`: {e}", simnet::show(text.as_bytes()), simnet::show(t2.as_bytes())),
                    )
                }
            }
        }
        cx.state(xplore::hash_of(&format!("{:?}", iface.without_comments())));
        Verdict::Pass(xplore::hash_of(&format!("{iface:?}")))
    }
}

/// The exchange with descriptions of every size: a fixed small interface whose first or last member
/// (or the interface itself) carries a comment of L characters, so that the reply's size sweeps
/// across several steps of the send buffer and long pieces of text land on every offset of it.
fn exchange_size_case(idx: u64, sink: &mut xplore::Sink<'_>) {
    let (l, place) = ((idx / 3) as usize, (idx % 3) as usize);
    let long = "lorem ipsum dolor sit amet ".repeat(l / 27 + 1)[..l].trim_end().to_string();
    let c = |on: bool| if on && !long.is_empty() { vec![long.clone()] } else { vec![] };
    let iface = RIface {
        comments: c(place == 0),
        name: "a.b".into(),
        members: vec![
            RMember { comments: c(place == 1), name: "T".into(), kind: RKind::TypeStruct(vec![RField { comments: vec![], name: "a".into(), ty: RType::Int }]) },
            RMember { comments: vec!["short".into()], name: "M".into(), kind: RKind::Method(vec![], vec![RField { comments: vec![], name: "b_c".into(), ty: RType::String }]) },
            RMember { comments: c(place == 2), name: "E".into(), kind: RKind::Error(vec![]) },
        ],
    };
    sink.goal("exchange-with-descriptions-of-every-size");
    match round_trip(&iface, true) {
        Ok(()) => {
            sink.steps(1);
            sink.pass(idx)
        }
        Err((class, detail)) => sink.fail(class, format!("comment of {} characters on {}: {}", long.len(), ["the interface", "the first member", "the last member"][place], detail.chars().take(600).collect::<String>()), json!({"what": "exchange-size", "index": idx})),
    }
}

pub fn run_c14(tier: Tier) -> i32 {
    let mut rep = Report::new("C14", tier.name());
    rep.rule = "DFS over reference trees as in C13 (members x field lists x type trees within a budget, comments on every subset of the interface / member / direct field / parameter / variant positions; in the comment-texts phases every one of nine comment texts - plain, empty, and texts that look like IDL: brackets before / after a colon, a colon or a closing bracket alone, keywords, a text that itself starts with `#` - on every position); each is built through zlink's public owned constructors, rendered with Display, parsed, compared deeply (comments included) and rendered again; the same for descriptions the parser produced from the harness's own text; in the `exchange` phases the description additionally travels as a GetInterfaceDescription reply through a real Connection and is parsed by the generated org.varlink.service proxy; phase exchange/description-sizes: the exchange for a fixed interface with a comment of every length 0..700 (thorough 1500) on the interface, its first or its last member, so that the reply crosses several steps of the send buffer at every offset. Distinct = distinct descriptions".into();
    rep.assumptions = vec!["comments are plain single-line texts without leading whitespace; comment text is compared modulo surrounding whitespace".into(), "names are legal by the grammar".into()];
    for g in ["description-with-comments", "enum-with-commented-variant", "empty-member-list", "long-member-list"] {
        rep.require_goal(g);
    }
    // (the thorough tier runs hundreds of millions of distinct descriptions: the sets of distinct states /
    // outcomes are capped there - the counts become lower bounds, which the evidence says - so that
    // they do not take tens of gigabytes)
    let cfg = Config { max_wall: std::time::Duration::from_secs(tier.pick(60, 600)), set_cap: tier.pick(40_000_000, 3_000_000), ..Default::default() };
    let g = |max_members, max_fields, type_budget, comments, iface_names| Gen { max_members, max_fields, type_budget, comments, variant_comments: comments == 1, layouts: vec![if comments == 1 { Layout::Lines } else { Layout::Spaced }], iface_names, rotate: false, wide: false };
    let plan: Vec<(&str, RoundTrip)> = match tier {
        Tier::Quick => vec![
            ("plain/<=2members,<=1field,budget1", RoundTrip { gen: g(2, 1, 1, 0, 2), exchange: false }),
            ("plain/<=1member,<=2fields,budget2", RoundTrip { gen: g(1, 2, 2, 0, 1), exchange: false }),
            ("comments/<=2members,<=1field,budget0", RoundTrip { gen: g(2, 1, 0, 1, 1), exchange: false }),
            // comments on fields / parameters / variants that are not the first of their list
            ("comments/<=1member,<=2fields,budget0", RoundTrip { gen: g(1, 2, 0, 1, 1), exchange: false }),
            ("exchange/<=2members,<=1field,budget0+comments", RoundTrip { gen: g(2, 1, 0, 1, 2), exchange: true }),
        ],
        Tier::Thorough => vec![
            ("plain/<=3members,<=1field,budget1", RoundTrip { gen: g(3, 1, 1, 0, 2), exchange: false }),
            ("plain/<=2members,<=2fields,budget0", RoundTrip { gen: g(2, 2, 0, 0, 1), exchange: false }),
            ("plain/<=1member,<=2fields,budget2", RoundTrip { gen: g(1, 2, 2, 0, 1), exchange: false }),
            ("plain/<=1member,<=2fields,budget3", RoundTrip { gen: g(1, 2, 3, 0, 1), exchange: false }),
            ("comments/<=2members,<=1field,budget1", RoundTrip { gen: g(2, 1, 1, 1, 1), exchange: false }),
            ("comments/<=1member,<=3fields,budget0", RoundTrip { gen: g(1, 3, 0, 1, 1), exchange: false }),
            ("exchange/<=2members,<=1field,budget1+comments", RoundTrip { gen: g(2, 1, 1, 1, 2), exchange: true }),
        ],
    };
    let mut plan = plan;
    // every comment text (incl. texts that look like IDL) on every commentable position
    plan.push(("comment-texts/<=1member,<=2fields,budget0", RoundTrip { gen: Gen { rotate: true, ..g(1, 2, 0, 1, 1) }, exchange: false }));
    plan.push(("exchange/comment-texts/<=1member,<=1field,budget0", RoundTrip { gen: Gen { rotate: true, ..g(1, 1, 0, 1, 1) }, exchange: true }));
    plan.push(("exchange/names/<=1member,<=1field,budget1", RoundTrip { gen: g(1, 1, 1, 0, IFACE_NAMES.len()), exchange: true }));
    plan.push(("long-lists/<=2members,<=1field,budget0", RoundTrip { gen: Gen { wide: true, ..g(2, 1, 0, 1, 1) }, exchange: false }));
    plan.push(("long-lists-plain/<=2members,<=1field,budget0", RoundTrip { gen: Gen { wide: true, ..g(2, 1, 0, 0, 1) }, exchange: true }));
    if tier == Tier::Thorough {
        plan.push(("comment-texts/<=2members,<=1field,budget0", RoundTrip { gen: Gen { rotate: true, ..g(2, 1, 0, 1, 1) }, exchange: false }));
    }
    for (name, h) in plan {
        rep.add(explore(name, json!({"what": "roundtrip", "exchange": h.exchange, "gen": h.gen.to_json()}), &h, &cfg));
    }
    rep.require_goal("exchange-with-descriptions-of-every-size");
    rep.add(xplore::sweep("exchange/description-sizes", 3 * tier.pick(700, 1500), &cfg, exchange_size_case));
    rep.finish()
}

pub fn replay(v: &Value) -> Replayed {
    if v["kind"] == "sweep" {
        let text = v["case"]["text"].as_str().unwrap_or("").to_string();
        return match judge(&text) {
            Ok(h) => Replayed::Pass(vec![format!("text `{}`: {h}", simnet::show(text.as_bytes()))]),
            Err((class, detail)) => Replayed::Fail { trace: vec![], class, detail },
        };
    }
    if v["case"]["what"] == "exchange-size" {
        let idx = v["case"]["index"].as_u64().unwrap_or(0);
        let st = xplore::sweep_one("exchange/description-sizes", idx, &Config { threads: 1, ..Default::default() }, exchange_size_case);
        return match st.violations.into_iter().next() {
            Some((class, rec)) => Replayed::Fail { trace: vec![format!("case {}", v["case"])], class, detail: rec.detail },
            None => Replayed::Pass(vec![format!("case {}", v["case"])]),
        };
    }
    let h = &v["harness"];
    match h["what"].as_str() {
        Some("positives") => Gen::from_json(&h["gen"]).map(|g| replay_dfs(&Positives(g), v)),
        Some("mutants") => Gen::from_json(&h["gen"]).map(|g| replay_dfs(&Mutants(g), v)),
        Some("tokens") => Some(replay_dfs(&TokenStrings { max: h["max"].as_u64().unwrap_or(4) as usize }, v)),
        Some("roundtrip") => Gen::from_json(&h["gen"]).map(|g| replay_dfs(&RoundTrip { gen: g, exchange: h["exchange"].as_bool().unwrap_or(false) }, v)),
        _ => None,
    }
    .unwrap_or_else(|| Replayed::Error("cannot rebuild the IDL harness from the replay file".into()))
}

/// One deeply nested type (`kind` 0: `[]`^depth int, 1: `[string]`^depth int, 2: inline structs
/// nested `depth` times, 3: `?[]` alternating), parsed and rendered back in this process.  Exit 0:
/// parsed and round-tripped; 3: rejected; the process dies on a stack overflow.
pub fn deep_child(depth: usize, kind: usize) -> i32 {
    // a fixed stack, so that the outcome does not depend on the caller's `ulimit -s`
    std::thread::Builder::new().stack_size(8 << 20).spawn(move || deep_parse(depth, kind)).expect("spawn").join().unwrap_or(5)
}

fn deep_parse(depth: usize, kind: usize) -> i32 {
    let ty = match kind {
        0 => format!("{}int", "[]".repeat(depth)),
        1 => format!("{}int", "[string]".repeat(depth)),
        2 => format!("{}int{}", "(a: ".repeat(depth), ")".repeat(depth)),
        _ => format!("{}int", "?[]".repeat(depth)),
    };
    let text = format!("interface a.b\ntype T (f: {ty})\n");
    match zlink_core::idl::Interface::try_from(text.as_str()) {
        Ok(i) => {
            let back = i.to_string();
            if zlink_core::idl::Interface::try_from(back.as_str()).is_ok() {
                0
            } else {
                4
            }
        }
        Err(_) => 3,
    }
}
