//! C03 — the built-in JSON serializer is byte-identical to serde_json's compact output.
//!
//! Seams: the crate-private `json_ser::to_slice` (re-exported under `cfg(zlink_verif)`), and the
//! public path `enqueue_call` / `send_error` on a capturing connection from every initial fill level.
//! Oracle: `serde_json::to_vec` driven by the *same* `Serialize` impl.  If zlink succeeds the bytes
//! must be identical; a value whose map keys are only strings, chars, integers or unit variants must
//! not be refused; a key of kind seq/tuple/map/struct/data-carrying variant/unit/bytes must be refused;
//! keys of kind bool/float/Option may be refused or must match.

use crate::common::{replay_dfs, Replayed, Tier};
use serde::ser::{SerializeMap, SerializeSeq, SerializeStruct, SerializeStructVariant, SerializeTuple, SerializeTupleStruct, SerializeTupleVariant};
use serde::{Serialize, Serializer};
use serde_json::{json, Value};
use simnet::{complete, Wire};
use std::cell::RefCell;
use xplore::report::Report;
use xplore::{explore, sweep, Config, Ctx, Harness, Sink, Verdict, H64};
use zlink_core::verif::json_to_slice;

thread_local! {
    static BUF: RefCell<Vec<u8>> = RefCell::new(vec![0u8; 1 << 16]);
}

#[derive(Debug, PartialEq)]
enum Z {
    Ok(Vec<u8>),
    TooSmall,
    Refused,
}

fn zlink<T: Serialize + ?Sized>(v: &T) -> Z {
    BUF.with(|b| {
        let mut b = b.borrow_mut();
        match json_to_slice(v, &mut b[..]) {
            Ok(n) => Z::Ok(b[..n].to_vec()),
            Err(true) => Z::TooSmall,
            Err(false) => Z::Refused,
        }
    })
}

/// Compare one value whose keys (if any) are all of the must-accept kinds. Returns the encoding.
fn same<T: Serialize + ?Sized>(v: &T) -> Result<Vec<u8>, (String, String)> {
    let s = serde_json::to_vec(v);
    match (zlink(v), s) {
        (Z::Ok(z), Ok(s)) if z == s => Ok(z),
        (Z::Ok(z), Ok(s)) => Err(("jsoneq:bytes-differ".into(), format!("zlink `{}` vs serde_json `{}`", simnet::show(&z), simnet::show(&s)))),
        (Z::Ok(z), Err(e)) => Err(("jsoneq:encoded-what-serde_json-refuses".into(), format!("zlink `{}`; serde_json: {e}", simnet::show(&z)))),
        (Z::Refused, Ok(s)) => Err(("jsoneq:valid-value-refused".into(), format!("serde_json `{}`", simnet::show(&s)))),
        (Z::TooSmall, _) => Err(("jsoneq:64KiB-buffer-too-small".into(), String::new())),
        (Z::Refused, Err(_)) => Ok(vec![]),
    }
}

// ------------------------------------------------------------------------------------------------
// a value type that can drive every method of the serde data model

#[derive(Clone, Debug)]
pub enum V {
    Bool(bool),
    I8(i8),
    I16(i16),
    I32(i32),
    I64(i64),
    I128(i128),
    U8(u8),
    U16(u16),
    U32(u32),
    U64(u64),
    U128(u128),
    F32(f32),
    F64(f64),
    Char(char),
    Str(String),
    Bytes(Vec<u8>),
    None,
    Some(Box<V>),
    Unit,
    UnitStruct,
    UnitVariant,
    NewtypeStruct(Box<V>),
    NewtypeVariant(Box<V>),
    Seq(Vec<V>),
    /// a sequence that announces no length
    SeqLen0(Vec<V>),
    Tuple(Vec<V>),
    TupleStruct(Vec<V>),
    TupleVariant(Vec<V>),
    Map(Vec<(V, V)>),
    /// a map that announces no length
    MapNoLen(Vec<(V, V)>),
    Struct(Vec<V>),
    StructVariant(Vec<V>),
}

const FIELD_NAMES: [&str; 4] = ["a", "b\"q", "c\u{e9}", "d"];

impl Serialize for V {
    fn serialize<S: Serializer>(&self, s: S) -> Result<S::Ok, S::Error> {
        match self {
            V::Bool(b) => s.serialize_bool(*b),
            V::I8(x) => s.serialize_i8(*x),
            V::I16(x) => s.serialize_i16(*x),
            V::I32(x) => s.serialize_i32(*x),
            V::I64(x) => s.serialize_i64(*x),
            V::I128(x) => s.serialize_i128(*x),
            V::U8(x) => s.serialize_u8(*x),
            V::U16(x) => s.serialize_u16(*x),
            V::U32(x) => s.serialize_u32(*x),
            V::U64(x) => s.serialize_u64(*x),
            V::U128(x) => s.serialize_u128(*x),
            V::F32(x) => s.serialize_f32(*x),
            V::F64(x) => s.serialize_f64(*x),
            V::Char(c) => s.serialize_char(*c),
            V::Str(x) => s.serialize_str(x),
            V::Bytes(b) => s.serialize_bytes(b),
            V::None => s.serialize_none(),
            V::Some(v) => s.serialize_some(&**v),
            V::Unit => s.serialize_unit(),
            V::UnitStruct => s.serialize_unit_struct("US"),
            V::UnitVariant => s.serialize_unit_variant("E", 1, "Uv"),
            V::NewtypeStruct(v) => s.serialize_newtype_struct("NS", &**v),
            V::NewtypeVariant(v) => s.serialize_newtype_variant("E", 2, "Nv", &**v),
            V::Seq(xs) => {
                let mut q = s.serialize_seq(Some(xs.len()))?;
                for x in xs {
                    q.serialize_element(x)?;
                }
                q.end()
            }
            V::SeqLen0(xs) => {
                let mut q = s.serialize_seq(None)?;
                for x in xs {
                    q.serialize_element(x)?;
                }
                q.end()
            }
            V::Tuple(xs) => {
                let mut q = s.serialize_tuple(xs.len())?;
                for x in xs {
                    q.serialize_element(x)?;
                }
                q.end()
            }
            V::TupleStruct(xs) => {
                let mut q = s.serialize_tuple_struct("TS", xs.len())?;
                for x in xs {
                    q.serialize_field(x)?;
                }
                q.end()
            }
            V::TupleVariant(xs) => {
                let mut q = s.serialize_tuple_variant("E", 3, "Tv", xs.len())?;
                for x in xs {
                    q.serialize_field(x)?;
                }
                q.end()
            }
            V::Map(es) => {
                let mut m = s.serialize_map(Some(es.len()))?;
                for (k, v) in es {
                    m.serialize_entry(k, v)?;
                }
                m.end()
            }
            V::MapNoLen(es) => {
                let mut m = s.serialize_map(None)?;
                for (k, v) in es {
                    m.serialize_key(k)?;
                    m.serialize_value(v)?;
                }
                m.end()
            }
            V::Struct(xs) => {
                let mut m = s.serialize_struct("St", xs.len())?;
                for (i, x) in xs.iter().enumerate() {
                    m.serialize_field(FIELD_NAMES[i % 4], x)?;
                }
                m.end()
            }
            V::StructVariant(xs) => {
                let mut m = s.serialize_struct_variant("E", 4, "Sv", xs.len())?;
                for (i, x) in xs.iter().enumerate() {
                    m.serialize_field(FIELD_NAMES[i % 4], x)?;
                }
                m.end()
            }
        }
    }
}

#[derive(Clone, Copy, PartialEq, Debug)]
enum KeyRule {
    MustAccept,
    Either,
    MustRefuse,
}

fn key_rule(k: &V) -> KeyRule {
    match k {
        V::Str(_) | V::Char(_) | V::UnitVariant => KeyRule::MustAccept,
        V::I8(_) | V::I16(_) | V::I32(_) | V::I64(_) | V::I128(_) | V::U8(_) | V::U16(_) | V::U32(_) | V::U64(_) | V::U128(_) => KeyRule::MustAccept,
        V::NewtypeStruct(inner) => match key_rule(inner) {
            KeyRule::MustRefuse => KeyRule::MustRefuse,
            _ => KeyRule::Either,
        },
        V::Some(inner) => match key_rule(inner) {
            KeyRule::MustRefuse => KeyRule::MustRefuse,
            _ => KeyRule::Either,
        },
        V::Bool(_) | V::F32(_) | V::F64(_) | V::None => KeyRule::Either,
        _ => KeyRule::MustRefuse,
    }
}

/// Strictest key rule in the tree: (any must-refuse key, any either key).
fn scan(v: &V, must_refuse: &mut bool, either: &mut bool) {
    match v {
        V::Some(x) | V::NewtypeStruct(x) | V::NewtypeVariant(x) => scan(x, must_refuse, either),
        V::Seq(xs) | V::SeqLen0(xs) | V::Tuple(xs) | V::TupleStruct(xs) | V::TupleVariant(xs) | V::Struct(xs) | V::StructVariant(xs) => xs.iter().for_each(|x| scan(x, must_refuse, either)),
        V::Map(es) | V::MapNoLen(es) => {
            for (k, x) in es {
                match key_rule(k) {
                    KeyRule::MustRefuse => *must_refuse = true,
                    KeyRule::Either => *either = true,
                    KeyRule::MustAccept => {}
                }
                scan(x, must_refuse, either);
            }
        }
        _ => {}
    }
}

fn judge_tree(v: &V) -> Result<(Vec<u8>, &'static str), (String, String)> {
    let (mut mr, mut ei) = (false, false);
    scan(v, &mut mr, &mut ei);
    let z = zlink(v);
    let s = serde_json::to_vec(v);
    let d = || format!("value {v:?}");
    match (z, s) {
        (Z::TooSmall, _) => Err(("jsoneq:64KiB-buffer-too-small".into(), d())),
        (Z::Ok(z), _) if mr => Err(("jsoneq:unsupported-key-kind-encoded".into(), format!("{}: zlink produced `{}`", d(), simnet::show(&z)))),
        (Z::Ok(z), Ok(s)) if z == s => Ok((z, "same")),
        (Z::Ok(z), Ok(s)) => Err(("jsoneq:bytes-differ".into(), format!("{}: zlink `{}` vs serde_json `{}`", d(), simnet::show(&z), simnet::show(&s)))),
        (Z::Ok(z), Err(e)) => Err(("jsoneq:encoded-what-serde_json-refuses".into(), format!("{}: zlink `{}`; serde_json: {e}", d(), simnet::show(&z)))),
        (Z::Refused, Ok(_)) if !mr && !ei => Err(("jsoneq:valid-value-refused".into(), d())),
        (Z::Refused, _) => Ok((vec![], "refused")),
    }
}

// ------------------------------------------------------------------------------------------------
// tree enumeration through the explorer

struct Trees {
    depth: usize,
    max_children: usize,
    max_entries: usize,
    /// 0 = full alphabets (24 leaves, 24 key kinds), 1 = reduced (7 / 6), 2 = tiny (3 / 2)
    alphabet: u8,
    buffer_lengths: bool,
}

const LEAVES_FULL: usize = 24;
fn leaf(i: usize) -> V {
    match i {
        0 => V::Bool(true),
        1 => V::I8(-128),
        2 => V::I16(-300),
        3 => V::I32(i32::MIN),
        4 => V::I64(i64::MIN),
        5 => V::I128(i128::MIN),
        6 => V::U8(255),
        7 => V::U16(65535),
        8 => V::U32(u32::MAX),
        9 => V::U64(u64::MAX),
        10 => V::U128(u128::MAX),
        11 => V::F32(1.5e-7),
        12 => V::F64(-2.5e300),
        13 => V::F64(f64::NAN),
        14 => V::Char('\u{1F600}'),
        15 => V::Str("a\"\\\n\u{1}\u{7f}\u{2028}z".into()),
        16 => V::Str(String::new()),
        17 => V::Bytes(vec![0, 7, 255]),
        18 => V::None,
        19 => V::Unit,
        20 => V::UnitStruct,
        21 => V::UnitVariant,
        22 => V::Bytes(vec![]),
        _ => V::F32(f32::INFINITY),
    }
}
const LEAVES_REDUCED: [usize; 7] = [0, 4, 12, 15, 18, 21, 17];
const LEAVES_TINY: [usize; 3] = [4, 15, 18];
const KEYS_TINY: [usize; 2] = [1, 17];
pub const KEYS: usize = 24;
pub fn key(i: usize) -> V {
    match i {
        0 => V::Str("k".into()),
        1 => V::Str("q\"\t\u{e9}".into()),
        2 => V::Char('c'),
        3 => V::Char('\u{0}'),
        4 => V::I8(-1),
        5 => V::U64(u64::MAX),
        6 => V::I128(i128::MIN),
        7 => V::U128(u128::MAX),
        8 => V::UnitVariant,
        9 => V::NewtypeStruct(Box::new(V::Str("n".into()))),
        10 => V::Bool(true),
        11 => V::F32(1.5),
        12 => V::F64(f64::NAN),
        13 => V::Some(Box::new(V::Str("s".into()))),
        14 => V::None,
        15 => V::Unit,
        16 => V::Bytes(vec![1]),
        17 => V::Seq(vec![V::U8(1)]),
        18 => V::Tuple(vec![V::U8(1), V::U8(2)]),
        19 => V::Map(vec![]),
        20 => V::Struct(vec![V::U8(1)]),
        21 => V::NewtypeVariant(Box::new(V::U8(1))),
        22 => V::UnitStruct,
        _ => V::I32(0),
    }
}
const KEYS_REDUCED: [usize; 6] = [0, 2, 4, 8, 10, 17];

impl Trees {
    fn gen(&self, cx: &Ctx, depth: usize) -> V {
        let leaves: Vec<usize> = match self.alphabet {
            0 => (0..LEAVES_FULL).collect(),
            1 => LEAVES_REDUCED.to_vec(),
            _ => LEAVES_TINY.to_vec(),
        };
        let keys: Vec<usize> = match self.alphabet {
            0 => (0..KEYS).collect(),
            1 => KEYS_REDUCED.to_vec(),
            _ => KEYS_TINY.to_vec(),
        };
        let nleaf = leaves.len();
        let ncont = 13;
        let c = if depth == 0 { cx.choose(nleaf, "leaf") } else { cx.choose(nleaf + ncont, "node") };
        if c < nleaf {
            return leaf(leaves[c]);
        }
        let kind = c - nleaf;
        let single = matches!(kind, 0 | 1 | 2);
        if single {
            let inner = Box::new(self.gen(cx, depth - 1));
            return match kind {
                0 => V::Some(inner),
                1 => V::NewtypeStruct(inner),
                _ => V::NewtypeVariant(inner),
            };
        }
        if matches!(kind, 10 | 11) {
            let n = cx.choose(self.max_entries + 1, "entries");
            let es: Vec<(V, V)> = (0..n)
                .map(|_| {
                    let k = cx.choose(keys.len(), "key-kind");
                    (key(keys[k]), self.gen(cx, depth - 1))
                })
                .collect();
            return if kind == 10 { V::Map(es) } else { V::MapNoLen(es) };
        }
        let n = cx.choose(self.max_children + 1, "children");
        let xs: Vec<V> = (0..n).map(|_| self.gen(cx, depth - 1)).collect();
        match kind {
            3 => V::Seq(xs),
            4 => V::SeqLen0(xs),
            5 => V::Tuple(xs),
            6 => V::TupleStruct(xs),
            7 => V::TupleVariant(xs),
            8 => V::Struct(xs),
            9 => V::StructVariant(xs),
            _ => V::Seq(vec![V::Seq(xs)]),
        }
    }
}

impl Harness for Trees {
    fn run(&self, cx: &Ctx) -> Verdict {
        let v = self.gen(cx, self.depth);
        cx.log(|| format!("value: {v:?}"));
        match judge_tree(&v) {
            Err((class, detail)) => Verdict::Fail(xplore::Violation { class, detail }),
            Ok((bytes, how)) => {
                cx.log(|| format!("{how}: {}", simnet::show(&bytes)));
                if how == "refused" {
                    cx.goal("value-refused-for-its-key-kind");
                } else {
                    cx.goal("value-encoded-identically");
                    if self.buffer_lengths && bytes.len() <= 96 {
                        // every buffer length: too small below the encoding's length, identical from there on
                        let mut buf = vec![0u8; bytes.len() + 2];
                        for l in 0..=bytes.len() + 1 {
                            let r = json_to_slice(&v, &mut buf[..l]);
                            let ok = if l < bytes.len() { r == Err(true) } else { r == Ok(bytes.len()) && buf[..bytes.len()] == bytes[..] };
                            if !ok {
                                return Verdict::fail("jsoneq:wrong-answer-for-a-buffer-length", format!("value {v:?} (encoding {} bytes) into a {l}-byte buffer: {r:?}", bytes.len()));
                            }
                        }
                        cx.goal("every-buffer-length");
                    }
                }
                cx.state(xplore::hash_of(&bytes));
                Verdict::Pass(H64::new().bytes(&bytes).s(how).get())
            }
        }
    }
}

// ------------------------------------------------------------------------------------------------
// values that are written through `Serializer::collect_str` (a `Display` that produces its text in
// several pieces): the same string serde_json writes, into every buffer length

#[derive(Debug)]
struct Pieces(Vec<String>);
impl std::fmt::Display for Pieces {
    fn fmt(&self, f: &mut std::fmt::Formatter<'_>) -> std::fmt::Result {
        for p in &self.0 {
            f.write_str(p)?;
        }
        Ok(())
    }
}
impl Serialize for Pieces {
    fn serialize<S: Serializer>(&self, s: S) -> Result<S::Ok, S::Error> {
        s.collect_str(self)
    }
}
#[derive(Debug, Serialize)]
struct WithDisplay {
    before: u8,
    d: Pieces,
    after: bool,
}

#[derive(Debug, Serialize)]
struct Pre {
    x: String,
}

fn piece(kind: usize) -> String {
    match kind {
        0 => String::new(),
        1 => "x".into(),
        2 => "q\"\\\n".into(),
        3 => "\u{e9}\u{20ac}".repeat(7),
        4 => "interface org.example.thing\n".into(),
        5 => "a comment of some length that goes on for a while, ".repeat(4),
        6 => "y".repeat(255),
        _ => "z\t".repeat(150),
    }
}
const PIECE_KINDS: u64 = 8;

/// 1..=3 pieces, every combination of kinds; each value into every buffer length 0..=len+1 and
/// through the public send path from every amount 0..=300 of already enqueued bytes.
fn display_case(idx: u64, sink: &mut Sink<'_>) {
    let n = 1 + (idx % 3) as usize;
    let mut rest = idx / 3;
    let mut pieces = Vec::new();
    for _ in 0..n {
        pieces.push(piece((rest % PIECE_KINDS) as usize));
        rest /= PIECE_KINDS;
    }
    if rest != 0 {
        // (index space is 3 * 8^3; combinations of fewer pieces repeat: count them once)
        sink.pass(0);
        return;
    }
    let lens: Vec<usize> = pieces.iter().map(|p| p.len()).collect();
    let case = json!({"group": "display-pieces", "index": idx, "piece_lengths": lens});
    let v = WithDisplay { before: 1, d: Pieces(pieces), after: true };
    let want = serde_json::to_vec(&v).unwrap();
    sink.goal("value-written-through-collect_str");
    let mut buf = vec![0u8; want.len() + 2];
    for l in 0..=want.len() + 1 {
        let r = json_to_slice(&v, &mut buf[..l]);
        let ok = if l < want.len() { r == Err(true) } else { r == Ok(want.len()) && buf[..want.len()] == want[..] };
        if !ok {
            sink.fail("jsoneq:wrong-answer-for-a-buffer-length", format!("a Display value of pieces {lens:?} (encoding {} bytes) into a {l}-byte buffer: {r:?}{}", want.len(), if let Ok(k) = r { format!(" `{}`", simnet::show(&buf[..k.min(l)])) } else { String::new() }), case);
            return;
        }
    }
    // the public path, from several fill levels of the send buffer
    for fill in [0usize, 9, 100, 200, 250, 255, 256, 300] {
        let wire = simnet::Wire::new(0, None);
        let mut conn = wire.connection();
        let mut expect = Vec::new();
        if fill > 0 {
            let pre = zlink_core::Call::new(Pre { x: "p".repeat(fill - 9) });
            if let Err(e) = conn.enqueue_call(&pre) {
                xplore::bug!("prefill refused: {e:?}");
            }
            expect.extend_from_slice(&serde_json::to_vec(&pre).unwrap());
            expect.push(0);
        }
        let r = simnet::complete(conn.send_reply(&zlink_core::Reply::new(Some(&v))));
        expect.extend_from_slice(&serde_json::to_vec(&zlink_core::Reply::new(Some(&v))).unwrap());
        expect.push(0);
        if r.is_err() || wire.written() != expect {
            sink.fail("jsoneq:public-path-bytes-differ", format!("a Display value of pieces {lens:?} sent with {fill} bytes already enqueued: {r:?}, the transport got `{}`", simnet::show(&wire.written())), case);
            return;
        }
    }
    sink.steps(want.len() as u64);
    sink.pass(H64::new().bytes(&want).get());
}

// ------------------------------------------------------------------------------------------------
// scalar sweeps

const ESC: [u32; 40] = [
    0x22, 0x5c, 0x2f, 0x00, 0x01, 0x02, 0x03, 0x04, 0x05, 0x06, 0x07, 0x08, 0x09, 0x0a, 0x0b, 0x0c, 0x0d, 0x0e, 0x0f, 0x10, 0x11, 0x12, 0x13, 0x14, 0x15, 0x16, 0x17, 0x18, 0x19, 0x1a, 0x1b, 0x1c, 0x1d, 0x1e,
    0x1f, 0x7f, 0x2028, 0xe9, 0x20ac, 0x1f600,
];

fn fail(sink: &mut Sink<'_>, e: (String, String), case: Value) {
    sink.fail(e.0, format!("{} ; case {case}", e.1), case);
}

/// Phase wrapped-keys: a map whose key is one of the 24 key kinds wrapped in Some / a newtype struct,
/// once or twice (an Option or newtype key is what its content is): refused, or what serde_json makes
/// of it; a wrapped key of a kind that can not be a key must be refused.
const KEY_WRAPS: [&str; 5] = ["Some", "newtype", "Some(Some)", "Some(newtype)", "newtype(Some)"];
fn wrapped_key_case(i: u64, sink: &mut Sink<'_>) {
    let (k, wrap, three) = ((i % KEYS as u64) as usize, (i / KEYS as u64 % 5) as usize, i / KEYS as u64 / 5 == 1);
    let s = |x: V| V::Some(Box::new(x));
    let n = |x: V| V::NewtypeStruct(Box::new(x));
    let wk = match wrap {
        0 => s(key(k)),
        1 => n(key(k)),
        2 => s(s(key(k))),
        3 => s(n(key(k))),
        _ => n(s(key(k))),
    };
    let mut entries = vec![(wk, V::U8(1))];
    if three {
        entries.insert(0, (V::Str("a".into()), V::U8(0)));
        entries.push((V::Str("z".into()), V::U8(2)));
    }
    let case = json!({"wrapped_key": i, "key": format!("{:?}", key(k)), "wrapped": KEY_WRAPS[wrap], "entries": entries.len()});
    match judge_tree(&V::Struct(vec![V::Map(entries)])) {
        Ok((bytes, how)) => {
            sink.goal(if how == "same" { "wrapped-key-encoded" } else { "wrapped-key-refused" });
            sink.steps(1);
            sink.pass(xplore::hash_of(&(bytes, i)));
        }
        Err(e) => fail(sink, e, case),
    }
}

fn scalar_case(i: u64, sink: &mut Sink<'_>) {
    let Some(c) = char::from_u32(i as u32) else { return };
    let s = c.to_string();
    let case = json!({"char": format!("U+{:04X}", i)});
    let a = match same(&c) {
        Ok(b) => b,
        Err(e) => return fail(sink, e, case),
    };
    let b = match same(s.as_str()) {
        Ok(b) => b,
        Err(e) => return fail(sink, e, case),
    };
    let m = V::Map(vec![(V::Str(s.clone()), V::U8(1)), (V::Char(c), V::U8(2))]);
    let k = match same(&m) {
        Ok(b) => b,
        Err(e) => return fail(sink, e, case),
    };
    if a != b {
        return fail(sink, ("jsoneq:char-and-str-differ".into(), String::new()), case);
    }
    // frames must be valid UTF-8 without raw control characters or NUL
    if std::str::from_utf8(&k).is_err() || k.iter().any(|x| *x < 0x20) {
        return fail(sink, ("jsoneq:raw-control-character-or-invalid-utf8".into(), simnet::show(&k)), case);
    }
    sink.steps(3);
    sink.count(2);
    sink.pass(H64::new().bytes(&a).get());
}

fn pair_case(i: u64, sink: &mut Sink<'_>) {
    let n = ESC.len() as u64;
    let (x, y, z) = (ESC[(i / (n * n)) as usize % ESC.len()], ESC[(i / n % n) as usize], ESC[(i % n) as usize]);
    let s: String = [x, y, z].iter().map(|c| char::from_u32(*c).unwrap()).collect();
    let case = json!({"string_code_points": [x, y, z]});
    match same(s.as_str()).and_then(|_| same(&V::Map(vec![(V::Str(s.clone()), V::Str(s.clone()))]))) {
        Ok(b) => sink.pass(H64::new().bytes(&b).get()),
        Err(e) => fail(sink, e, case),
    }
}

fn small_int_case(i: u64, sink: &mut Sink<'_>) {
    // 0..256 u8, ..512 i8, then 65536 u16, 65536 i16
    let v = if i < 256 {
        V::U8(i as u8)
    } else if i < 512 {
        V::I8((i - 256) as u8 as i8)
    } else if i < 512 + 65536 {
        V::U16((i - 512) as u16)
    } else {
        V::I16((i - 512 - 65536) as u16 as i16)
    };
    let case = json!({"int": format!("{v:?}")});
    match same(&v).and_then(|_| same(&V::Map(vec![(v.clone(), v.clone())]))) {
        Ok(b) => {
            sink.count(1);
            sink.pass(H64::new().bytes(&b).get())
        }
        Err(e) => fail(sink, e, case),
    }
}

/// The structured wide-integer set: 0, +-1, MIN, MAX, +-10^k+-1, values with <= 2 set bits +-1.
fn wide_ints() -> Vec<V> {
    let mut v: Vec<i128> = vec![0, 1, -1];
    let mut p: i128 = 1;
    for _ in 0..39 {
        for d in [-1i128, 0, 1] {
            v.push(p + d);
            v.push(-(p + d));
        }
        p = p.saturating_mul(10);
    }
    let mut u: Vec<u128> = vec![];
    for a in 0..128 {
        for b in a..128 {
            let x = (1u128 << a) | (1u128 << b);
            u.push(x);
            u.push(x.wrapping_sub(1));
            u.push(x.wrapping_add(1));
        }
    }
    let mut out = Vec::new();
    for x in v {
        out.push(V::I128(x));
        if let Ok(y) = i64::try_from(x) {
            out.push(V::I64(y));
        }
        if let Ok(y) = i32::try_from(x) {
            out.push(V::I32(y));
        }
        if let Ok(y) = u128::try_from(x) {
            u.push(y);
        }
    }
    out.extend([V::I128(i128::MIN), V::I128(i128::MAX), V::I64(i64::MIN), V::I64(i64::MAX), V::I32(i32::MIN), V::I32(i32::MAX)]);
    u.extend([0, u128::MAX, u64::MAX as u128, u32::MAX as u128]);
    for x in u {
        out.push(V::U128(x));
        out.push(V::I128(x as i128));
        out.push(V::I128((x as i128).wrapping_neg()));
        if let Ok(y) = u64::try_from(x) {
            out.push(V::U64(y));
            out.push(V::I64(y as i64));
        }
        if let Ok(y) = u32::try_from(x) {
            out.push(V::U32(y));
            out.push(V::I32(y as i32));
        }
    }
    out
}

/// f64: all 2048 exponents x {0, 1, all-ones, each single mantissa bit} x sign.
fn f64_case(i: u64, sink: &mut Sink<'_>) {
    let pats = 55u64; // 0, 1, all ones, 52 single bits
    let sign = i / (2048 * pats);
    let e = i / pats % 2048;
    let p = i % pats;
    let mant: u64 = match p {
        0 => 0,
        1 => 1,
        2 => (1 << 52) - 1,
        k => 1 << (k - 3),
    };
    let bits = (sign << 63) | (e << 52) | mant;
    let x = f64::from_bits(bits);
    match same(&x) {
        Ok(b) => sink.pass(H64::new().bytes(&b).get()),
        Err(er) => fail(sink, er, json!({"f64_bits": format!("{bits:#018x}")})),
    }
}

fn f32_case_bits(bits: u32, sink: &mut Sink<'_>) -> bool {
    let x = f32::from_bits(bits);
    match same(&x) {
        Ok(_) => true,
        Err(er) => {
            fail(sink, er, json!({"f32_bits": format!("{bits:#010x}")}));
            false
        }
    }
}

/// Public path: `pre` bytes already enqueued, then value `v` through send_error; every fill level.
fn public_case(vi: usize, fill: usize, vals: &[V], sink: &mut Sink<'_>) {
    #[derive(Debug, Serialize)]
    struct Pay {
        x: String,
    }
    let v = &vals[vi];
    let case = json!({"value": format!("{v:?}"), "bytes_already_enqueued": fill});
    let Ok(enc) = serde_json::to_vec(v) else { return };
    let wire = Wire::new(0, None);
    let mut conn = wire.connection();
    let mut expect = Vec::new();
    if fill >= 9 {
        let c = zlink_core::Call::new(Pay { x: "p".repeat(fill - 9) });
        if conn.enqueue_call(&c).is_err() {
            return fail(sink, ("jsoneq:prefill-refused".into(), String::new()), case);
        }
        expect = serde_json::to_vec(&c).unwrap();
        expect.push(0);
    } else if fill != 0 {
        return;
    }
    match complete(conn.send_error(&DebugV(v))) {
        Ok(()) => {
            expect.extend_from_slice(&enc);
            expect.push(0);
            let got = wire.written();
            if got != expect {
                return fail(sink, ("jsoneq:public-path-bytes-differ".into(), format!("got `{}` expected `{}`", simnet::show(&got), simnet::show(&expect))), case);
            }
            sink.pass(H64::new().u((fill % 256) as u64).u((enc.len() % 256) as u64).get());
        }
        Err(e) => fail(sink, ("jsoneq:valid-value-refused".into(), format!("{e:?}")), case),
    }
}

/// `send_error` wants `Debug`; `V` has it, but keep the wrapper explicit about what is serialized.
#[derive(Debug)]
struct DebugV<'a>(&'a V);
impl Serialize for DebugV<'_> {
    fn serialize<S: Serializer>(&self, s: S) -> Result<S::Ok, S::Error> {
        self.0.serialize(s)
    }
}

fn public_values() -> Vec<V> {
    let mut v = Vec::new();
    // strings whose escapes / multi-byte scalars land on every offset
    for n in [0usize, 1, 5, 37, 120, 250, 255, 256, 257, 300] {
        for filler in ["a", "\u{e9}", "\"", "\u{1}", "\u{1F600}"] {
            v.push(V::Str(filler.repeat(n)));
        }
    }
    for n in [1usize, 30, 90] {
        v.push(V::Seq((0..n).map(|i| V::I64(-(i as i64) * 1234567)).collect()));
        v.push(V::Seq((0..n).map(|i| V::F64(i as f64 * 0.1)).collect()));
        v.push(V::Map((0..n.min(40)).map(|i| (V::Str(format!("k{i}")), V::Seq(vec![V::Bool(i % 2 == 0), V::None]))).collect()));
        v.push(V::Struct(vec![V::Bytes(vec![7; n]), V::NewtypeVariant(Box::new(V::Str("x".repeat(n)))), V::TupleVariant(vec![V::U128(u128::MAX); n.min(6)])]));
    }
    v
}

pub fn run(tier: Tier) -> i32 {
    let mut rep = Report::new("C03", tier.name());
    rep.rule = "sweeps (complete index ranges): every Unicode scalar as char, as 1-char str and as str/char map key; all triples over 40 escape-relevant code points as a string and as key+value; every i8/u8/i16/u16 as value and as map key; the structured wide-integer set (0, +-1, MIN, MAX, +-10^k+-1, every value with <=2 set bits +-1, in every width that holds it) as value and key; f64: all 2048 exponents x {0,1,all-ones, each single mantissa bit} x sign; f32: quick = every exponent x sign x 64 mantissa patterns, thorough = all 2^32 bit patterns; public path: 62 structured values x every amount 0,9..=300 of already enqueued bytes. maps whose key is each of the 24 key kinds wrapped in Some / a newtype struct once or twice, alone and between two string keys. values written through Serializer::collect_str (a Display producing its text in 1..3 pieces of 0..300 bytes, with characters that need escaping) into every buffer length and from eight fill levels of the send buffer. DFS: every value tree within the bounds named by each phase (levels / alphabet / children / map entries) over 24 leaves + 13 containers (one per Serializer method) with 24 key kinds, the smaller ones also serialized into every buffer length 0..=len+1. Distinct = distinct encodings".into();
    rep.assumptions = vec![
        "serde_json::to_vec driven by the same Serialize impl is the reference".into(),
        "a key of kind bool / float / Option (which serde_json accepts and zlink refuses) may be refused; str, char, integer and unit-variant keys must be accepted; every other key kind must be refused".into(),
    ];
    for g in ["value-refused-for-its-key-kind", "value-encoded-identically", "every-buffer-length"] {
        rep.require_goal(g);
    }
    let cfg = Config { max_wall: std::time::Duration::from_secs(tier.pick(60, 2400)), ..Default::default() };
    rep.add(sweep("scalars(char,str,key)", 0x110000, &cfg, scalar_case));
    rep.add(sweep("escape-triples", 64000, &cfg, pair_case));
    rep.add(sweep("small-ints", 512 + 2 * 65536, &cfg, small_int_case));
    let wi = wide_ints();
    rep.add(sweep("wide-ints", wi.len() as u64, &cfg, |i, s| {
        let v = &wi[i as usize];
        match same(v).and_then(|_| same(&V::Map(vec![(v.clone(), v.clone())]))) {
            Ok(b) => {
                s.count(1);
                s.pass(H64::new().bytes(&b).get())
            }
            Err(e) => fail(s, e, json!({"int": format!("{v:?}")})),
        }
    }));
    rep.add(sweep("f64-structured", 2 * 2048 * 55, &cfg, f64_case));
    match tier {
        Tier::Quick => rep.add(sweep("f32-structured", 2 * 256 * 64, &cfg, |i, s| {
            let (sign, e, p) = (i / (256 * 64), i / 64 % 256, i % 64);
            let mant: u32 = match p {
                0 => 0,
                1 => 1,
                2 => (1 << 23) - 1,
                k if k < 26 => 1 << (k - 3),
                k => (0x9e3779b9u32.wrapping_mul(k as u32 + 1)) & ((1 << 23) - 1),
            };
            if f32_case_bits(((sign as u32) << 31) | ((e as u32) << 23) | mant, s) {
                s.pass(i)
            }
        })),
        Tier::Thorough => rep.add(sweep("f32-all-bit-patterns", 1 << 20, &cfg, |i, s| {
            // one index = 4096 consecutive bit patterns
            let base = (i as u32) << 12;
            for k in 0..4096u32 {
                if !f32_case_bits(base | k, s) {
                    return;
                }
            }
            s.count(4095);
            s.pass(i)
        })),
    }
    let pv = public_values();
    let fills: Vec<usize> = std::iter::once(0).chain(9..=300).collect();
    rep.add(sweep("public-path-every-fill", (pv.len() * fills.len()) as u64, &cfg, |i, s| public_case(i as usize / fills.len(), fills[i as usize % fills.len()], &pv, s)));
    let t = |depth, max_children, max_entries, alphabet, buffer_lengths| Trees { depth, max_children, max_entries, alphabet, buffer_lengths };
    let plan: Vec<(&str, Trees)> = match tier {
        Tier::Quick => vec![
            ("trees:2-levels/full-alphabet/<=2children+every-buffer-length", t(1, 2, 2, 0, true)),
            ("trees:3-levels/tiny-alphabet/<=2children+every-buffer-length", t(2, 2, 2, 2, true)),
            ("trees:4-levels/reduced-alphabet/<=1child", t(3, 1, 1, 1, false)),
        ],
        Tier::Thorough => vec![
            ("trees:2-levels/full-alphabet/<=3children,<=2entries+every-buffer-length", t(1, 3, 2, 0, true)),
            ("trees:3-levels/tiny-alphabet/<=2children+every-buffer-length", t(2, 2, 2, 2, true)),
            ("trees:3-levels/reduced-alphabet/<=2children,<=1entry", t(2, 2, 1, 1, false)),
            ("trees:5-levels/reduced-alphabet/<=1child", t(4, 1, 1, 1, false)),
        ],
    };
    for (name, h) in plan {
        rep.add(explore(name, json!({"depth": h.depth, "max_children": h.max_children, "max_entries": h.max_entries, "alphabet": h.alphabet, "buffer_lengths": h.buffer_lengths}), &h, &cfg));
    }
    // supplement (sampling, labelled): seeded wide integers and f64 bit patterns
    let seed = rep.seed;
    let n = tier.pick(1_000_000u64, 50_000_000u64);
    let st = sweep("SUPPLEMENT-sampled-f64-and-u128(seeded, not part of the exhaustive claim)", n, &cfg, |i, s| {
        let mut x = (i ^ seed).wrapping_mul(0x9e3779b97f4a7c15);
        x ^= x >> 29;
        x = x.wrapping_mul(0xbf58476d1ce4e5b9);
        x ^= x >> 32;
        let f = f64::from_bits(x);
        let w = (x as u128) << 64 | (x.rotate_left(17) as u128);
        match same(&f).and_then(|_| same(&w)).and_then(|_| same(&(w as i128))) {
            Ok(_) => s.pass(i % 1024),
            Err(e) => fail(s, e, json!({"sampled_bits": format!("{x:#x}")})),
        }
    });
    rep.extra.insert("supplementary_sampled".into(), json!({"cases": st.evals, "seed": seed, "note": "pseudo-random f64 bit patterns and 128-bit integers; sampling, not enumeration"}));
    rep.add(st);
    rep.require_goal("wrapped-key-refused");
    rep.add(sweep("wrapped-keys", 2 * 5 * KEYS as u64, &cfg, wrapped_key_case));
    rep.require_goal("value-written-through-collect_str");
    rep.add(sweep("display-values(collect_str)", 3 * PIECE_KINDS * PIECE_KINDS * PIECE_KINDS, &cfg, display_case));
    // the bytes on a real wire: zlink-tokio / zlink-smol transports, a raw reader at the other end
    rep.require_goal("message-of-more-than-100KB-over-a-real-socket");
    rep.rule.push_str("; plus (child process `sockets c03-child`) the raw bytes a std reader takes off a real socket pair whose other end is a zlink connection over the zlink-tokio / zlink-smol transport: sequences of 1..2 (thorough 3) messages of 300 B .. 150 KB with characters that need escaping, x how much the reader takes off per pending sender poll (nothing until the sender stalls, 4 KiB, 64 KiB, everything) x smallest / default socket buffers; must equal serde_json's encodings each followed by one NUL");
    if let Err(code) = crate::common::child_phase_bin(&mut rep, "main", "sockets", "c03-child", tier, "raw-wire-bytes/tokio+smol(child)") {
        return code;
    }
    rep.finish()
}

pub fn replay(v: &Value) -> Replayed {
    if let Some(r) = crate::common::replay_child(v) {
        return r;
    }
    if v["kind"] == "dfs" {
        let h = &v["harness"];
        let t = Trees { depth: h["depth"].as_u64().unwrap_or(2) as usize, max_children: h["max_children"].as_u64().unwrap_or(2) as usize, max_entries: h["max_entries"].as_u64().unwrap_or(1) as usize, alphabet: h["alphabet"].as_u64().unwrap_or(0) as u8, buffer_lengths: h["buffer_lengths"].as_bool().unwrap_or(false) };
        return replay_dfs(&t, v);
    }
    // sweep cases are re-run from the recorded case description
    let c = &v["case"];
    let cfg = Config { threads: 1, ..Default::default() };
    let st = if let Some(i) = c["wrapped_key"].as_u64() {
        xplore::sweep_one("replay", i, &cfg, wrapped_key_case)
    } else if let Some(ch) = c["char"].as_str() {
        let cp = u64::from_str_radix(&ch[2..], 16).unwrap_or(0);
        xplore::sweep_one("replay", cp, &cfg, scalar_case)
    } else if let Some(b) = c["f64_bits"].as_str() {
        let bits = u64::from_str_radix(&b[2..], 16).unwrap_or(0);
        xplore::sweep_one("replay", 0, &cfg, move |_, s| match same(&f64::from_bits(bits)) {
            Ok(_) => s.pass(0),
            Err(e) => fail(s, e, json!({"f64_bits": format!("{bits:#018x}")})),
        })
    } else if let Some(b) = c["f32_bits"].as_str() {
        let bits = u32::from_str_radix(&b[2..], 16).unwrap_or(0);
        xplore::sweep_one("replay", 0, &cfg, move |_, s| {
            if f32_case_bits(bits, s) {
                s.pass(0)
            }
        })
    } else {
        return Replayed::Error(format!("this sweep case is replayed by re-running its phase: ./vcheck C03 quick (case {c})"));
    };
    match st.violations.into_iter().next() {
        Some((class, rec)) => Replayed::Fail { trace: vec![format!("case {c}")], class, detail: rec.detail },
        None => Replayed::Pass(vec![format!("case {c}")]),
    }
}
