//! zcheck — one subcommand per property (model checking of zlink by exhaustive bounded enumeration).

use serde_json::Value;

mod alloclog;
mod chain;
mod classify;
mod common;
mod envelope;
mod fairness;
mod framing;
mod idl;
mod jsoneq;
mod limits;
mod outframe;
mod server;

pub use common::Tier;

#[global_allocator]
static ALLOC: alloclog::LoggingAlloc = alloclog::LoggingAlloc;

fn usage() -> ! {
    eprintln!("usage: zcheck <subcommand> [--tier quick|thorough]\n       zcheck --replay <file>\nsubcommands: framing cancel");
    std::process::exit(2)
}

fn main() {
    let args: Vec<String> = std::env::args().skip(1).collect();
    if args.is_empty() {
        usage();
    }
    if args[0] == "--replay" {
        let path = args.get(1).unwrap_or_else(|| usage());
        let txt = std::fs::read_to_string(path).unwrap_or_else(|e| {
            eprintln!("MACHINERY: cannot read {path}: {e}");
            std::process::exit(2)
        });
        let v: Value = serde_json::from_str(&txt).unwrap_or_else(|e| {
            eprintln!("MACHINERY: cannot parse {path}: {e}");
            std::process::exit(2)
        });
        std::process::exit(replay(&v, path));
    }
    if args[0] == "idl-deep" {
        // child process of C13: one deeply nested type, parsed on a thread with the given stack
        let depth: usize = args.get(1).and_then(|s| s.parse().ok()).unwrap_or(1000);
        let kind: usize = args.get(2).and_then(|s| s.parse().ok()).unwrap_or(0);
        std::process::exit(idl::deep_child(depth, kind));
    }
    if args[0] == "outframe-large" {
        // child process of C02 (main build): `--tier t` for the whole phase, `--case i` for one case
        let only = args.iter().position(|a| a == "--case").and_then(|p| args.get(p + 1)).and_then(|s| s.parse().ok());
        let tier = if args.iter().any(|a| a == "thorough") { Tier::Thorough } else { Tier::Quick };
        std::process::exit(outframe::large_child(tier, only));
    }
    if args[0] == "limits-prod" {
        std::process::exit(limits::production_child());
    }
    let mut tier = Tier::Quick;
    let mut i = 1;
    while i < args.len() {
        match args[i].as_str() {
            "--tier" => {
                tier = match args.get(i + 1).map(|s| s.as_str()) {
                    Some("quick") => Tier::Quick,
                    Some("thorough") => Tier::Thorough,
                    _ => usage(),
                };
                i += 2;
            }
            _ => usage(),
        }
    }
    let code = match args[0].as_str() {
        "framing" => framing::run_c01(tier),
        "cancel" => framing::run_c07(tier),
        "outframe" => outframe::run(tier),
        "limits" => limits::run(tier),
        "idlparse" => idl::run_c13(tier),
        "idlround" => idl::run_c14(tier),
        "envelope" => envelope::run(tier),
        "classify" => classify::run(tier),
        "jsoneq" => jsoneq::run(tier),
        "server" => server::run_c08(tier),
        "fairness" => fairness::run(tier),
        "faults" => server::run_c09(tier),
        "streaming" => server::run_c10(tier),
        "chain" => chain::run_c06(tier),
        "borrow" => chain::run_c11(tier),
        _ => usage(),
    };
    std::process::exit(code);
}

fn replay(v: &Value, path: &str) -> i32 {
    let prop = v["property"].as_str().unwrap_or("");
    let r = match prop {
        "C01" | "C07" => framing::replay(v),
        "C02" => outframe::replay(v),
        "C06" | "C11" => chain::replay(v),
        "C17" => limits::replay(v),
        "C13" | "C14" => idl::replay(v),
        "C05" => envelope::replay(v),
        "C04" => classify::replay(v),
        "C03" => jsoneq::replay(v),
        "C08" | "C09" | "C10" => server::replay(v),
        "C18" => fairness::replay(v),
        _ => {
            eprintln!("MACHINERY: no replay handler for property `{prop}`");
            return 2;
        }
    };
    match r {
        common::Replayed::Pass(trace) => {
            for l in trace {
                println!("{l}");
            }
            println!("replay of {path}: the property HOLDS on this execution now");
            0
        }
        common::Replayed::Fail { trace, class, detail } => {
            for l in trace {
                println!("{l}");
            }
            println!("VIOLATION property={prop} replay={path}");
            println!("  class: {class}\n  detail: {detail}");
            1
        }
        common::Replayed::Error(e) => {
            eprintln!("MACHINERY: {e}");
            2
        }
    }
}
