//! C17 — buffers are bounded: oversized traffic is refused with `BufferOverflow`, smaller traffic is
//! accepted, memory stays below the limit plus one growth step.
//!
//! Built twice: with `--cfg zlink_verif_small_buf` the library's limit is 4096 bytes and both
//! directions are swept exhaustively over every size up to limit + 600; without it (main build,
//! thorough tier) the production limit of 100 MiB is exercised for the inbound overflow case.

use crate::common::{Replayed, Tier};
use serde::Serialize;
use serde_json::{json, Value};
use simnet::{complete, ScriptSocket, Task, Wire};
use std::task::Poll;
use xplore::report::Report;
use xplore::{sweep, Config, Sink, H64};
use zlink_core::{Call, Connection};

type Conn = Connection<ScriptSocket>;

#[cfg(zlink_verif_small_buf)]
pub const LIMIT: usize = 4096;
#[cfg(not(zlink_verif_small_buf))]
pub const LIMIT: usize = 100 * 1024 * 1024;
const STEP: usize = 256;
const EXTRA: usize = 600;

#[derive(Debug, Serialize)]
struct Pay {
    x: String,
}

fn pad(n: usize) -> String {
    (0..n).map(|i| (b'a' + (i % 26) as u8) as char).collect()
}

/// A frame of exactly `total` bytes including its NUL: `{"x":"…"}` when it fits, digits otherwise.
fn frame(total: usize, valid: bool) -> Vec<u8> {
    let body = total - 1;
    let mut v = if !valid {
        let mut s = String::from("{");
        s.push_str(&pad(body.saturating_sub(1)));
        s.truncate(body);
        s.into_bytes()
    } else if body >= 8 {
        format!("{{\"x\":\"{}\"}}", pad(body - 8)).into_bytes()
    } else if body >= 2 {
        format!("{{{}}}", " ".repeat(body - 2)).into_bytes()
    } else {
        vec![b' '; body] // cannot be valid JSON object; only used with valid=false semantics
    };
    v.push(0);
    v
}

#[derive(Debug, PartialEq)]
enum Got {
    Ok(String),
    Overflow,
    Eof,
    OtherErr(String),
    Stall,
}

/// Receive one call while `chunks` arrive one after the other (the next chunk is delivered when the
/// receive is pending and quiet).  Returns the result and the peak receive-buffer length.
fn receive(chunks: &[&[u8]], eof_after: bool) -> (Got, usize, usize) {
    let wire = Wire::new(0, None);
    let mut conn: Conn = wire.connection();
    let mut peak = conn.read().verif_buffer_range().1;
    let mut next = 0;
    if let Some(c) = chunks.first() {
        wire.arrive(c);
        next = 1;
    }
    let mut task = Task::new();
    let got = {
        let mut fut = std::pin::pin!(conn.receive_call::<Value>());
        loop {
            match task.poll(fut.as_mut()) {
                Poll::Ready(Ok(c)) => break Got::Ok(c.method().to_string()),
                Poll::Ready(Err(zlink_core::Error::BufferOverflow)) => break Got::Overflow,
                Poll::Ready(Err(zlink_core::Error::UnexpectedEof)) => break Got::Eof,
                Poll::Ready(Err(e)) => break Got::OtherErr(format!("{e:?}")),
                Poll::Pending => {
                    if task.woken() {
                        continue;
                    }
                    if next < chunks.len() {
                        wire.arrive(chunks[next]);
                        next += 1;
                    } else if eof_after && !wire.0.borrow().eof {
                        wire.close();
                    } else {
                        break Got::Stall;
                    }
                }
            }
        }
    };
    peak = peak.max(conn.read().verif_buffer_range().1);
    let consumed = wire.0.borrow().consumed;
    (got, peak, consumed)
}

fn judge_inbound(sink: &mut Sink<'_>, what: &str, total: usize, valid: bool, terminated: bool, got: &Got, peak: usize, expect_ok: Option<&str>, case: Value) -> bool {
    if peak > LIMIT + STEP {
        sink.fail("limits:receive-buffer-grew-beyond-limit", format!("{what}: receive buffer reached {peak} bytes (limit {LIMIT})"), case);
        return false;
    }
    let must_accept = terminated && total < LIMIT;
    let must_refuse = total > LIMIT + STEP;
    let ok_result = |g: &Got| match (g, valid, expect_ok) {
        (Got::Ok(s), true, Some(e)) => s == e,
        (Got::OtherErr(_), false, _) => true, // a malformed frame below the limit is a decode error
        _ => false,
    };
    if must_accept {
        if !ok_result(got) {
            let class = if *got == Got::Overflow { "limits:frame-below-limit-refused" } else { "limits:frame-below-limit-mishandled" };
            sink.fail(class, format!("{what}: a {total}-byte frame (limit {LIMIT}) gave {got:?}"), case);
            return false;
        }
    } else if must_refuse || !terminated {
        // an unterminated stream of any length never completes a message; once it reaches the
        // limit it must be refused, below it the receive keeps waiting (Stall) or sees EOF
        let fine = match got {
            Got::Overflow => total >= LIMIT,
            Got::Stall | Got::Eof => !terminated && total < LIMIT + STEP && !must_refuse,
            _ => false,
        };
        let fine = fine || (terminated && !must_refuse && ok_result(got));
        if !fine {
            let class = match got {
                Got::Ok(_) | Got::OtherErr(_) if must_refuse => "limits:oversized-frame-not-refused",
                Got::Stall | Got::Eof => "limits:oversized-stream-not-refused",
                Got::Overflow => "limits:overflow-below-limit",
                _ => "limits:oversized-frame-mishandled",
            };
            sink.fail(class, format!("{what}: {total} bytes (limit {LIMIT}, terminated={terminated}) gave {got:?}"), case);
            return false;
        }
    } else {
        // LIMIT <= total <= LIMIT + STEP: accept (correctly) or refuse with BufferOverflow
        if !(ok_result(got) || *got == Got::Overflow) {
            sink.fail("limits:frame-at-limit-mishandled", format!("{what}: a {total}-byte frame at the limit gave {got:?}"), case);
            return false;
        }
    }
    true
}

/// Inbound, one frame of `total` bytes; `mode`: 0 = all at once, 1 = unterminated (no NUL) + EOF,
/// 2 = unterminated, connection stays open, 3 = malformed frame all at once, 4.. = valid frame cut once
/// at position `mode - 3`.
fn inbound_case(total: usize, mode: usize, sink: &mut Sink<'_>) {
    let case = json!({"direction": "in", "total_bytes": total, "mode": mode});
    let valid = mode != 3;
    let f = frame(total, valid);
    let expect = if valid && total > 2 { Some(serde_json::from_slice::<Value>(&f[..total - 1]).unwrap().to_string()) } else { None };
    let (what, got, peak) = match mode {
        0 | 3 => {
            let (g, p, _) = receive(&[&f], false);
            ("single arrival", g, p)
        }
        1 => {
            let (g, p, _) = receive(&[&f[..total - 1]], true);
            ("unterminated then EOF", g, p)
        }
        2 => {
            let (g, p, _) = receive(&[&f[..total - 1]], false);
            ("unterminated, peer silent", g, p)
        }
        m => {
            let c = m - 3;
            let (g, p, _) = receive(&[&f[..c], &f[c..]], false);
            ("two arrivals", g, p)
        }
    };
    let terminated = !(mode == 1 || mode == 2);
    let total_eff = if terminated { total } else { total - 1 };
    if total < LIMIT {
        sink.goal("below-limit");
    }
    if total > LIMIT + STEP {
        sink.goal("above-limit-plus-step");
    }
    if total % STEP <= 1 || total % STEP == STEP - 1 {
        sink.goal("size-at-growth-step");
    }
    if judge_inbound(sink, what, total_eff, valid && total > 2, terminated, &got, peak, expect.as_deref(), case) {
        sink.state(H64::new().u(peak as u64).u(matches!(got, Got::Overflow) as u64).get());
        sink.steps(1 + (total / STEP) as u64);
        sink.pass(H64::new().u(total as u64).u(mode.min(4) as u64).s(match &got { Got::Ok(_) => "ok", Got::Overflow => "overflow", Got::Eof => "eof", Got::OtherErr(_) => "err", Got::Stall => "stall" }).get());
    }
}

/// Inbound, a small frame of `prefix` bytes directly followed by a frame of `total` bytes, both in
/// one arrival: the second frame starts in a buffer that already holds `prefix` bytes.
fn inbound_after_prefix_case(prefix: usize, total: usize, sink: &mut Sink<'_>) {
    let case = json!({"direction": "in-after-prefix", "prefix_bytes": prefix, "total_bytes": total});
    let a = frame(prefix, true);
    let b = frame(total, true);
    let mut stream = a.clone();
    stream.extend_from_slice(&b);
    let wire = Wire::new(0, None);
    wire.arrive(&stream);
    let mut conn: Conn = wire.connection();
    let mut peak = 0;
    let mut results = Vec::new();
    for _ in 0..2 {
        let r = simnet::complete_or_stall(conn.receive_call::<Value>());
        peak = peak.max(conn.read().verif_buffer_range().1);
        results.push(match r {
            Some(Ok(c)) => Got::Ok(c.method().to_string()),
            Some(Err(zlink_core::Error::BufferOverflow)) => Got::Overflow,
            Some(Err(zlink_core::Error::UnexpectedEof)) => Got::Eof,
            Some(Err(e)) => Got::OtherErr(format!("{e:?}")),
            None => Got::Stall,
        });
        if !matches!(results.last(), Some(Got::Ok(_))) {
            break;
        }
    }
    let ea = serde_json::from_slice::<Value>(&a[..prefix - 1]).unwrap().to_string();
    let eb = serde_json::from_slice::<Value>(&b[..total - 1]).unwrap().to_string();
    if peak > LIMIT + STEP {
        sink.fail("limits:receive-buffer-grew-beyond-limit", format!("{prefix}+{total} bytes: receive buffer reached {peak}"), case);
        return;
    }
    // the small frame is below the limit on any reading
    let first_ok = results.first() == Some(&Got::Ok(ea));
    // the frame in front was handed out before the big one needs the room: the big one is judged by
    // its own size, like a lone frame
    let both_fit = total < LIMIT;
    let second = results.get(1);
    let second_ok = second == Some(&Got::Ok(eb));
    let second_refused = second == Some(&Got::Overflow) || (!first_ok && results.first() == Some(&Got::Overflow));
    let verdict = if both_fit {
        if first_ok && second_ok {
            Ok(())
        } else {
            Err(("limits:frame-below-limit-refused-behind-a-small-frame", format!("{prefix}+{total} bytes (limit {LIMIT}) gave {results:?}")))
        }
    } else if total > LIMIT + STEP {
        if second_refused {
            Ok(())
        } else {
            Err(("limits:oversized-frame-not-refused", format!("{prefix}+{total} bytes gave {results:?}")))
        }
    } else if (first_ok && (second_ok || second_refused)) || second_refused {
        Ok(())
    } else {
        Err(("limits:frame-at-limit-mishandled", format!("{prefix}+{total} bytes gave {results:?}")))
    };
    match verdict {
        Ok(()) => {
            sink.steps(2);
            sink.pass(H64::new().u(prefix as u64).u(total as u64).u(second_ok as u64).get())
        }
        Err((c, d)) => sink.fail(c, d, case),
    }
}

/// Inbound, sustained pipelining: `count` frames of `size` bytes each arrive in pieces of `piece`
/// bytes (0: all at once), so that most transport reads end in the middle of a frame; the receiver
/// takes messages off as fast as they become complete.  Every frame is far below the limit, so every
/// one must be delivered and the buffer must stay bounded although the stream as a whole is several
/// times the limit.
fn inbound_pipelined_case(size: usize, count: usize, piece: usize, sink: &mut Sink<'_>) {
    let case = json!({"direction": "in-pipelined", "frame_bytes": size, "frames": count, "piece_bytes": piece});
    let f = frame(size, true);
    let want = serde_json::from_slice::<Value>(&f[..size - 1]).unwrap().to_string();
    let mut stream = Vec::with_capacity(size * count);
    for _ in 0..count {
        stream.extend_from_slice(&f);
    }
    let wire = Wire::new(0, None);
    let mut conn: Conn = wire.connection();
    let mut task = Task::new();
    let mut sent = 0usize;
    let mut peak = 0usize;
    let mut delivered = 0usize;
    let step = if piece == 0 { stream.len() } else { piece };
    'frames: while delivered < count {
        let r = {
            let mut fut = std::pin::pin!(conn.receive_call::<Value>());
            loop {
                match task.poll(fut.as_mut()) {
                    Poll::Ready(r) => break r.map(|c| c.method().to_string()),
                    Poll::Pending => {
                        if task.woken() {
                            continue;
                        }
                        if sent < stream.len() {
                            let end = (sent + step).min(stream.len());
                            wire.arrive(&stream[sent..end]);
                            sent = end;
                        } else {
                            sink.fail("limits:pipelined-frame-never-delivered", format!("{count} frames of {size} bytes in pieces of {piece}: frame #{delivered} never arrives although the whole stream was sent"), case);
                            return;
                        }
                    }
                }
            }
        };
        peak = peak.max(conn.read().verif_buffer_range().1);
        match r {
            Ok(got) if got == want => delivered += 1,
            Ok(got) => {
                sink.fail("limits:accepted-bytes-differ", format!("pipelined frame #{delivered}: got {got}"), case);
                return;
            }
            Err(zlink_core::Error::BufferOverflow) => {
                sink.fail("limits:small-frame-refused-in-a-pipelined-stream", format!("{count} frames of {size} bytes each (limit {LIMIT}) arriving in pieces of {piece} bytes: frame #{delivered} (stream offset {}) was refused with BufferOverflow; receive buffer at {peak} bytes", delivered * size), case);
                break 'frames;
            }
            Err(e) => {
                sink.fail("limits:small-frame-refused-in-a-pipelined-stream", format!("frame #{delivered}: {e:?}"), case);
                return;
            }
        }
        if peak > LIMIT + STEP {
            sink.fail("limits:receive-buffer-grew-beyond-limit", format!("{count} pipelined frames of {size} bytes: receive buffer reached {peak} bytes (limit {LIMIT})"), case);
            return;
        }
    }
    if delivered == count {
        sink.steps(count as u64);
        sink.pass(H64::new().u(size as u64).u(piece as u64).u(peak as u64).get());
    }
}

/// Outbound: `fill` bytes already enqueued (0 or >= 9), then a message of encoded length `len`,
/// through enqueue_call (`send` = false; only len >= 8) or send_error (`send` = true).
/// Messages whose LAST value is not a string: what the serializer wants to have free for a number
/// or a literal must not make a message that fits look too large.
#[derive(Debug, Serialize)]
struct PayTail<T: Serialize> {
    x: String,
    t: T,
}
const TAILS: [&str; 8] = ["f64 1.5", "f64 -1.0e-7", "f32 0.25", "i64 -7", "u128 max", "bool true", "null", "nested empty list"];

fn outbound_tail_case(len: usize, tail: usize, sink: &mut Sink<'_>) {
    let case = json!({"direction": "out-tail", "message_len": len, "last_value": TAILS[tail], "tail": tail});
    let wire = Wire::new(0, None);
    let mut conn: Conn = wire.connection();
    // {"x":"<pad>","t":<tail>} : the pad makes the document exactly `len` bytes long
    macro_rules! go {
        ($t:expr) => {{
            let probe = serde_json::to_vec(&Call::new(PayTail { x: String::new(), t: $t })).unwrap().len();
            if len < probe {
                sink.pass(0);
                return;
            }
            let c = Call::new(PayTail { x: pad(len - probe), t: $t });
            (conn.enqueue_call(&c), serde_json::to_vec(&c).unwrap())
        }};
    }
    let (res, doc) = match tail {
        0 => go!(1.5f64),
        1 => go!(-1.0e-7f64),
        2 => go!(0.25f32),
        3 => go!(-7i64),
        4 => go!(u128::MAX),
        5 => go!(true),
        6 => go!(None::<u8>),
        _ => go!(vec![Vec::<u8>::new()]),
    };
    if doc.len() != len {
        xplore::bug!("tail doc {} != {len}", doc.len());
    }
    let must_accept = len + 1 < LIMIT;
    let accepted = match &res {
        Ok(()) => true,
        Err(zlink_core::Error::BufferOverflow) => false,
        Err(e) => {
            sink.fail("limits:wrong-error-for-outgoing-message", format!("{e:?}"), case);
            return;
        }
    };
    if must_accept {
        sink.goal("message-ending-in-a-number-or-literal-just-below-the-limit");
    }
    if must_accept && !accepted {
        sink.fail("limits:message-below-limit-refused", format!("a {len}-byte message (limit {LIMIT}) whose last value is {} was refused", TAILS[tail]), case);
        return;
    }
    if len > LIMIT + STEP && accepted {
        sink.fail("limits:oversized-message-not-refused", format!("a {len}-byte message (limit {LIMIT}) was accepted"), case);
        return;
    }
    if let Err(e) = complete(conn.flush()) {
        sink.fail("limits:flush-failed", format!("{e:?}"), case);
        return;
    }
    let mut expect = Vec::new();
    if accepted {
        expect.extend_from_slice(&doc);
        expect.push(0);
    }
    if wire.written() != expect {
        sink.fail("limits:accepted-bytes-differ", format!("a {len}-byte message whose last value is {}: the transport got {} bytes, expected {}", TAILS[tail], wire.written().len(), expect.len()), case);
        return;
    }
    sink.steps(1);
    sink.pass(H64::new().u(len as u64).u(tail as u64).u(accepted as u64).get());
}

fn outbound_case(fill: usize, len: usize, send: bool, sink: &mut Sink<'_>) {
    let case = json!({"direction": "out", "already_enqueued_bytes": fill, "message_len": len, "via": if send { "send_error" } else { "enqueue_call" }});
    let wire = Wire::new(0, None);
    let mut conn: Conn = wire.connection();
    let mut pending: Vec<u8> = Vec::new();
    if fill > 0 {
        let c = Call::new(Pay { x: pad(fill - 9) });
        if let Err(e) = conn.enqueue_call(&c) {
            sink.fail("limits:small-message-refused", format!("pre-fill of {fill} bytes: {e:?}"), case);
            return;
        }
        pending = serde_json::to_vec(&c).unwrap();
        pending.push(0);
        if pending.len() != fill {
            xplore::bug!("prefill {} != {fill}", pending.len());
        }
    }
    let (res, doc) = if send {
        let s = pad(len - 2);
        (complete(conn.send_error(&s)), serde_json::to_vec(&s).unwrap())
    } else {
        let c = Call::new(Pay { x: pad(len - 8) });
        (conn.enqueue_call(&c), serde_json::to_vec(&c).unwrap())
    };
    if doc.len() != len {
        xplore::bug!("doc {} != {len}", doc.len());
    }
    let peak = conn.write().verif_buffer_range().1;
    if peak > LIMIT + STEP {
        sink.fail("limits:send-buffer-grew-beyond-limit", format!("send buffer reached {peak} bytes (limit {LIMIT})"), case);
        return;
    }
    let must_accept = fill + len + 1 < LIMIT;
    let must_refuse = len > LIMIT + STEP;
    if must_accept {
        sink.goal("below-limit");
    }
    if must_refuse {
        sink.goal("above-limit-plus-step");
    }
    let accepted = match &res {
        Ok(()) => true,
        Err(zlink_core::Error::BufferOverflow) => false,
        Err(e) => {
            sink.fail("limits:wrong-error-for-outgoing-message", format!("{e:?}"), case);
            return;
        }
    };
    if must_accept && !accepted {
        sink.fail("limits:message-below-limit-refused", format!("{fill} bytes pending + a {len}-byte message (limit {LIMIT}) was refused"), case);
        return;
    }
    if must_refuse && accepted {
        sink.fail("limits:oversized-message-not-refused", format!("a {len}-byte message (limit {LIMIT}) was accepted"), case);
        return;
    }
    if accepted {
        pending.extend_from_slice(&doc);
        pending.push(0);
    } else if wire.write_count() != 0 {
        sink.fail("limits:refused-message-wrote-bytes", format!("refused, yet {} write(s) reached the transport", wire.write_count()), case);
        return;
    }
    // whatever was accepted must come out intact, the refused message must have left nothing
    if let Err(e) = complete(conn.flush()) {
        sink.fail("limits:flush-failed-after-refusal", format!("{e:?}"), case);
        return;
    }
    let all = wire.written();
    if all != pending {
        sink.fail(
            if accepted { "limits:accepted-bytes-differ" } else { "limits:refusal-damaged-earlier-enqueued-data" },
            format!("transport got {} bytes, expected {} (accepted={accepted})", all.len(), pending.len()),
            case,
        );
        return;
    }
    sink.state(H64::new().u(peak as u64).u(accepted as u64).get());
    sink.steps(2);
    sink.pass(H64::new().u((fill + len) as u64).u(accepted as u64).u(send as u64).get());
}

#[cfg(zlink_verif_small_buf)]
pub fn run(tier: Tier) -> i32 {
    let mut rep = Report::new("C17", tier.name());
    rep.rule = format!("library built with the limit lowered to {LIMIT} (hook). Inbound: every frame size 1..={} bytes x {{whole frame in one arrival, malformed frame, unterminated + EOF, unterminated + silent peer, every single cut position (quick: cuts within 2 bytes of a multiple of 256, first/last byte, middle), behind a small frame of 3/100/255/256/257 bytes in the same arrival}}; outbound: every message length up to {} x every amount 0,9..=300 of earlier enqueued bytes x {{enqueue_call, send_error}}. Distinct outcomes are (size, mode class, result class)", LIMIT + EXTRA, LIMIT + EXTRA);
    rep.assumptions = vec![
        "a frame's size counts its terminating NUL; sizes in [limit, limit + one 256-byte step] may be accepted or refused (the statement fixes neither), everything below must be accepted, everything above must be refused with BufferOverflow".into(),
        "for outbound traffic the size that must fit is everything pending in the send buffer plus the new message".into(),
        "single frames only: a burst of small frames that coalesce beyond the limit is outside the statement".into(),
    ];
    for g in ["below-limit", "above-limit-plus-step", "size-at-growth-step"] {
        rep.require_goal(g);
    }
    let cfg = Config { max_wall: std::time::Duration::from_secs(tier.pick(60, 1500)), ..Default::default() };
    let max = (LIMIT + EXTRA) as u64;
    // inbound, modes 0..=3
    rep.add(sweep("in/whole+unterminated+malformed", (max - 1) * 4, &cfg, |i, s| inbound_case((i / 4) as usize + 2, (i % 4) as usize, s)));
    // inbound, single cuts
    let cuts_of = |total: usize| -> Vec<usize> {
        let mut v: Vec<usize> = if tier == Tier::Thorough {
            (1..total).collect()
        } else {
            (1..total).filter(|c| *c <= 1 || *c + 1 >= total || *c == total / 2 || c % STEP <= 2 || c % STEP >= STEP - 2).collect()
        };
        v.dedup();
        v
    };
    let mut index: Vec<(u32, u32)> = Vec::new();
    for total in 2..=(LIMIT + EXTRA) {
        for c in cuts_of(total) {
            index.push((total as u32, c as u32));
        }
    }
    rep.add(sweep("in/one-cut", index.len() as u64, &cfg, |i, s| {
        let (t, c) = index[i as usize];
        inbound_case(t as usize, c as usize + 3, s)
    }));
    // inbound, behind a small frame in the same arrival
    let prefixes = [3usize, 100, 255, 256, 257];
    rep.add(sweep("in/behind-a-small-frame", prefixes.len() as u64 * (max - 2), &cfg, |i, s| inbound_after_prefix_case(prefixes[(i % 5) as usize], (i / 5) as usize + 3, s)));
    // outbound
    let fills: Vec<usize> = std::iter::once(0).chain(9..=300).collect();
    let nf = fills.len() as u64;
    // sustained pipelining: streams of 3x the limit made of small frames, most reads ending mid-frame
    let psizes: Vec<usize> = vec![9, 55, 100, 255, 256, 257, 300, 1000];
    let pieces: Vec<usize> = vec![0, 1, 7, 64, 100, 255, 256, 257, 1000, 5000];
    rep.add(sweep("in/pipelined-small-frames", (psizes.len() * pieces.len()) as u64, &cfg, |i, s| {
        let size = psizes[i as usize % psizes.len()];
        inbound_pipelined_case(size, 3 * LIMIT / size + 2, pieces[i as usize / psizes.len()], s)
    }));
    rep.add(sweep("out/enqueue_call", nf * (max - 7), &cfg, |i, s| outbound_case(fills[(i % nf) as usize], (i / nf) as usize + 8, false, s)));
    rep.add(sweep("out/send_error", nf * (max - 1), &cfg, |i, s| outbound_case(fills[(i % nf) as usize], (i / nf) as usize + 2, true, s)));
    // messages that end in a number / literal / empty container, every length from 200 bytes below
    // the limit to one step above it
    rep.require_goal("message-ending-in-a-number-or-literal-just-below-the-limit");
    let tail_lens: u64 = 200 + STEP as u64 + 40;
    rep.add(sweep("out/last-value-not-a-string/near-the-limit", tail_lens * TAILS.len() as u64, &cfg, |i, s| outbound_tail_case(LIMIT - 200 + (i / TAILS.len() as u64) as usize, (i % TAILS.len() as u64) as usize, s)));
    // the production limit, with the library as it ships (main build), in a child process
    let child = xplore::report::build_dir("main").join("release/zcheck");
    let out = std::process::Command::new(&child).arg("limits-prod").output();
    let parsed: Option<Value> = out.ok().filter(|o| o.status.success()).and_then(|o| String::from_utf8(o.stdout).ok()).and_then(|s| s.lines().last().and_then(|l| serde_json::from_str(l).ok()));
    match parsed {
        None => {
            eprintln!("MACHINERY: cannot run {} limits-prod", child.display());
            return 2;
        }
        Some(v) => {
            if v["errors"].as_array().map_or(true, |a| !a.is_empty()) {
                eprintln!("MACHINERY: production-limit child: {}", v["errors"]);
                return 2;
            }
            let viol: Vec<Value> = v["violations"].as_array().cloned().unwrap_or_default();
            let n = v["evals"].as_u64().unwrap_or(0).max(viol.len() as u64);
            rep.extra.insert("production_limit_bytes".into(), v["limit"].clone());
            rep.add(sweep("in/production-limit(child)", n.max(1), &Config { threads: 1, ..Default::default() }, |i, s| match viol.get(i as usize) {
                Some(x) => s.fail(x["class"].as_str().unwrap_or("limits:production"), x["detail"].as_str().unwrap_or(""), json!({"production": true, "case": x["case"]})),
                None => {
                    s.sample(|| json!({"production_limit_case": i, "result": "as required"}));
                    s.pass(i)
                }
            }));
        }
    }
    rep.finish()
}

#[cfg(not(zlink_verif_small_buf))]
pub fn run(_tier: Tier) -> i32 {
    eprintln!("MACHINERY: `limits` must be built with --cfg zlink_verif_small_buf (use ./vcheck C17)");
    2
}

/// Production limit (main build, run as a child of the small-buffer binary): an unterminated
/// stream of limit + 2 steps must be refused with BufferOverflow, a frame just below the limit must
/// be accepted, a frame above limit + step refused; memory stays bounded.  Prints one JSON line.
pub fn production_child() -> i32 {
    let cfg = Config { threads: 3, ..Default::default() };
    let cases: [(usize, usize); 4] = [(LIMIT + 2 * STEP, 2), (LIMIT - 1, 0), (LIMIT + STEP + 1, 0), (LIMIT + 2 * STEP, 1)];
    let st = sweep("in/production-limit", cases.len() as u64, &cfg, |i, s| inbound_case(cases[i as usize].0, cases[i as usize].1, s));
    let viol: Vec<Value> = st.violations.iter().map(|(c, r)| json!({"class": c, "detail": r.detail, "case": r.replay["case"]})).collect();
    println!("{}", json!({"limit": LIMIT, "evals": st.evals, "violations": viol, "errors": st.machinery_errors}));
    0
}

pub fn replay(v: &Value) -> Replayed {
    let c = if v["case"]["production"] == true { &v["case"]["case"] } else { &v["case"] };
    let cfg = Config { threads: 1, ..Default::default() };
    let st = if c["direction"] == "out-tail" {
        let (l, t) = (c["message_len"].as_u64().unwrap_or(100) as usize, c["tail"].as_u64().unwrap_or(0) as usize);
        xplore::sweep_one("replay", 0, &cfg, |_, s| outbound_tail_case(l, t, s))
    } else if c["direction"] == "in-after-prefix" {
        let (p0, t) = (c["prefix_bytes"].as_u64().unwrap_or(3) as usize, c["total_bytes"].as_u64().unwrap_or(3) as usize);
        xplore::sweep_one("replay", 0, &cfg, |_, s| inbound_after_prefix_case(p0, t, s))
    } else if c["direction"] == "in" {
        let (t, m) = (c["total_bytes"].as_u64().unwrap_or(1) as usize, c["mode"].as_u64().unwrap_or(0) as usize);
        xplore::sweep_one("replay", 0, &cfg, |_, s| inbound_case(t, m, s))
    } else {
        let (f, l, via) = (c["already_enqueued_bytes"].as_u64().unwrap_or(0) as usize, c["message_len"].as_u64().unwrap_or(8) as usize, c["via"] == "send_error");
        xplore::sweep_one("replay", 0, &cfg, |_, s| outbound_case(f, l, via, s))
    };
    match st.violations.into_iter().next() {
        Some((class, rec)) => Replayed::Fail { trace: vec![format!("case {c}")], class, detail: rec.detail },
        None => Replayed::Pass(vec![format!("case {c}")]),
    }
}
