//! C04 — a reply carrying an `error` member is never reported as success; declared errors, standard
//! service errors and successes are told apart exactly as the statement says.
//!
//! Seam: `Connection::receive_reply::<P, E>` and `Connection::call_method::<_, P, E>` on a connection
//! whose peer has sent exactly one reply frame.  The space is a finite product and is enumerated
//! completely: reply shapes x `continues` x member order x expected parameter type x error type x path.

use crate::common::{Replayed, Tier};
use serde::{Deserialize, Serialize};
use serde_json::{json, Map, Value};
use simnet::{complete_or_stall, Wire};
use xplore::report::Report;
use xplore::{sweep, Config, Sink, H64};
use zlink_core::{varlink_service, Call, Reply};

#[derive(Debug, Deserialize, PartialEq)]
struct AllOpt {
    #[serde(default)]
    a: Option<u8>,
}
#[derive(Debug, Deserialize, PartialEq)]
struct Strict {
    n: u8,
    s: String,
}

#[derive(Debug, PartialEq, zlink_core::ReplyError)]
#[zlink(interface = "a", crate = "zlink_core")]
enum E1 {
    Unit,
    St { n: u8, s: String },
    /// the wire name is not the Rust spelling
    #[zlink(rename = "IOError")]
    IoErr { n: u8 },
}
#[derive(Debug, PartialEq, zlink_core::ReplyError)]
#[zlink(interface = "a", crate = "zlink_core")]
enum E2<'a> {
    Unit,
    St { n: u8, s: &'a str },
    #[zlink(rename = "IOError")]
    IoErr { n: u8 },
}
#[derive(Debug, PartialEq, zlink_core::ReplyError)]
#[zlink(interface = "a", crate = "zlink_core")]
enum E0 {}
/// errors of an interface whose name merely begins like the standard one
#[derive(Debug, PartialEq, zlink_core::ReplyError)]
#[zlink(interface = "org.varlink.services", crate = "zlink_core")]
enum E3 {
    Busy,
    Slow { n: u8 },
}

#[derive(Debug, Serialize)]
struct Ping {
    method: &'static str,
}

/// The same product through generated proxy methods: one method per (parameter type, error type).
#[zlink_core::proxy(interface = "a", crate = "zlink_core")]
trait ClassifyProxy {
    async fn p0e0(&mut self) -> zlink_core::Result<Result<(), E1>>;
    async fn p1e0(&mut self) -> zlink_core::Result<Result<AllOpt, E1>>;
    async fn p2e0(&mut self) -> zlink_core::Result<Result<Value, E1>>;
    async fn p3e0(&mut self) -> zlink_core::Result<Result<Strict, E1>>;
    async fn p4e0(&mut self) -> zlink_core::Result<Result<Option<Strict>, E1>>;
    async fn p0e1(&mut self) -> zlink_core::Result<Result<(), E2<'_>>>;
    async fn p1e1(&mut self) -> zlink_core::Result<Result<AllOpt, E2<'_>>>;
    async fn p2e1(&mut self) -> zlink_core::Result<Result<Value, E2<'_>>>;
    async fn p3e1(&mut self) -> zlink_core::Result<Result<Strict, E2<'_>>>;
    async fn p4e1(&mut self) -> zlink_core::Result<Result<Option<Strict>, E2<'_>>>;
    async fn p0e2(&mut self) -> zlink_core::Result<Result<(), E0>>;
    async fn p1e2(&mut self) -> zlink_core::Result<Result<AllOpt, E0>>;
    async fn p2e2(&mut self) -> zlink_core::Result<Result<Value, E0>>;
    async fn p3e2(&mut self) -> zlink_core::Result<Result<Strict, E0>>;
    async fn p4e2(&mut self) -> zlink_core::Result<Result<Option<Strict>, E0>>;
    async fn p0e3(&mut self) -> zlink_core::Result<Result<(), E3>>;
    async fn p1e3(&mut self) -> zlink_core::Result<Result<AllOpt, E3>>;
    async fn p2e3(&mut self) -> zlink_core::Result<Result<Value, E3>>;
    async fn p3e3(&mut self) -> zlink_core::Result<Result<Strict, E3>>;
    async fn p4e3(&mut self) -> zlink_core::Result<Result<Option<Strict>, E3>>;
}

#[derive(Clone, Debug)]
struct Frame {
    text: String,
    has_error: bool,
    error_name: Option<String>,
    what: String,
}

fn object_in_order(members: &[(&str, Value)], order: &[usize]) -> String {
    // build the text by hand so that the member order is exactly `order`
    let parts: Vec<String> = order.iter().map(|i| format!("{}:{}", serde_json::to_string(members[*i].0).unwrap(), members[*i].1)).collect();
    format!("{{{}}}", parts.join(","))
}

fn permutations(n: usize) -> Vec<Vec<usize>> {
    fn rec(cur: &mut Vec<usize>, used: &mut Vec<bool>, n: usize, out: &mut Vec<Vec<usize>>) {
        if cur.len() == n {
            out.push(cur.clone());
            return;
        }
        for i in 0..n {
            if !used[i] {
                used[i] = true;
                cur.push(i);
                rec(cur, used, n, out);
                cur.pop();
                used[i] = false;
            }
        }
    }
    let mut out = vec![];
    rec(&mut vec![], &mut vec![false; n], n, &mut out);
    out
}

fn frames() -> Vec<Frame> {
    let fit_strict = json!({"n": 7, "s": "ok"});
    let fit_allopt = json!({"a": 3});
    let mut shapes: Vec<(Option<&str>, Option<Value>, &str)> = vec![
        (None, None, "success, no parameters"),
        (None, Some(Value::Null), "success, null parameters"),
        (None, Some(json!({})), "success, empty parameters"),
        (None, Some(fit_strict.clone()), "success, parameters {n,s}"),
        (None, Some(fit_allopt.clone()), "success, parameters {a}"),
        (None, Some(json!({"n": "x"})), "success, ill-typed parameters"),
        (None, Some(json!([1, 2])), "success, array parameters"),
        (Some("a.Unit"), None, "declared unit error"),
        (Some("a.Unit"), Some(Value::Null), "declared unit error, null parameters"),
        (Some("a.Unit"), Some(fit_strict.clone()), "declared unit error with parameters that fit a success"),
        (Some("a.St"), Some(json!({"n": 1, "s": "e"})), "declared struct error"),
        (Some("a.St"), Some(json!({"n": "one", "s": "e"})), "declared struct error, wrong-typed parameter"),
        (Some("a.St"), Some(json!({"n": 1})), "declared struct error, missing parameter"),
        (Some("a.St"), Some(json!({"n": 1, "s": "e", "extra": true})), "declared struct error, extra parameter"),
        (Some("a.St"), None, "declared struct error, no parameters"),
        (Some("a.St"), Some(json!({"a": 3})), "declared struct error with parameters that fit another success"),
        (Some("io.systemd.System"), None, "undeclared error"),
        (Some("io.systemd.System"), Some(json!({"errno": 2})), "undeclared error with parameters"),
        (Some("io.systemd.System"), Some(fit_strict.clone()), "undeclared error with parameters that fit a success"),
        (Some("x.Nope"), Some(json!({})), "undeclared error, empty parameters"),
        (Some("a.unit"), None, "error name differing in case"),
        (Some("org.varlink.services.Busy"), None, "error of an interface whose name begins like the standard one"),
        (Some("org.varlink.services.Slow"), Some(json!({"n": 2})), "struct error of an interface whose name begins like the standard one"),
        (Some("org.varlink.service2.X"), None, "undeclared error of another interface whose name begins like the standard one"),
        (Some("a.IOError"), Some(json!({"n": 1})), "declared error whose wire name is a rename"),
        (Some("a.IoErr"), Some(json!({"n": 1})), "the Rust spelling of a renamed error (not a wire name)"),
        (Some(""), None, "empty error name"),
    ];
    for (name, p) in [
        ("InterfaceNotFound", json!({"interface": "i"})),
        ("MethodNotFound", json!({"method": "m"})),
        ("MethodNotImplemented", json!({"method": "m"})),
        ("InvalidParameter", json!({"parameter": "p"})),
        ("PermissionDenied", Value::Null),
        ("ExpectedMore", Value::Null),
    ] {
        let full: &'static str = Box::leak(format!("org.varlink.service.{name}").into_boxed_str());
        if p.is_null() {
            shapes.push((Some(full), None, "standard error without parameters"));
            shapes.push((Some(full), Some(fit_strict.clone()), "standard unit error with parameters that fit a success"));
        } else {
            shapes.push((Some(full), Some(p), "standard error"));
            shapes.push((Some(full), None, "standard error missing its parameters"));
            shapes.push((Some(full), Some(fit_strict.clone()), "standard error with parameters that fit a success instead"));
        }
    }
    shapes.push((Some("org.varlink.service.Bogus"), None, "unknown name in the standard namespace"));
    let mut out = Vec::new();
    // an `error` member whose value is not a string (a peer that writes every member out and uses
    // null for those that do not apply, or a broken one): the reply carries an error member, so it
    // is never a success, and no error type recognises it
    for (odd, oddname) in [(Value::Null, "null"), (json!(7), "a number"), (json!(true), "a boolean"), (json!({}), "an empty object"), (json!(["a.Unit"]), "an array holding a declared name"), (json!({"a.Unit": {}}), "an object")] {
        for (params, pname) in [(None, "no parameters"), (Some(Value::Null), "null parameters"), (Some(json!({})), "empty parameters"), (Some(fit_strict.clone()), "parameters that fit a success"), (Some(fit_allopt.clone()), "parameters that fit another success")] {
            for cont in [None, Some(true)] {
                let mut members: Vec<(&str, Value)> = vec![("error", odd.clone())];
                if let Some(p) = &params {
                    members.push(("parameters", p.clone()));
                }
                if let Some(c) = cont {
                    members.push(("continues", json!(c)));
                }
                for order in permutations(members.len()) {
                    out.push(Frame { text: object_in_order(&members, &order), has_error: true, error_name: None, what: format!("an error member that is {oddname}, {pname}; continues={cont:?}") });
                }
            }
        }
    }
    for (err, params, what) in shapes {
        for cont in [None, Some(true), Some(false)] {
            let mut members: Vec<(&str, Value)> = Vec::new();
            if let Some(e) = err {
                members.push(("error", json!(e)));
            }
            if let Some(p) = &params {
                members.push(("parameters", p.clone()));
            }
            if let Some(c) = cont {
                members.push(("continues", json!(c)));
            }
            for order in permutations(members.len()) {
                out.push(Frame { text: object_in_order(&members, &order), has_error: err.is_some(), error_name: err.map(|s| s.to_string()), what: format!("{what}; continues={cont:?}") });
            }
        }
    }
    out
}

/// Sizes a reply is bulked up to: beyond one, four, eight and eighteen receive-buffer steps (and 1:
/// the addition itself is a single character, the reply stays small).
const BULK_SIZES: [usize; 5] = [1, 300, 1100, 2100, 4700];
const BULK_KINDS: [&str; 4] = ["whitespace after the opening brace", "an unknown member in front", "an unknown member at the end", "a long string inside the parameters"];

/// The same reply made longer without changing what it says: `kind` as in BULK_KINDS.  `None` when
/// the kind does not apply to this frame (no string parameter to lengthen).
fn bulked(f: &Frame, kind: usize, size: usize) -> Option<Frame> {
    let t = &f.text;
    let need = size.saturating_sub(t.len()).max(1);
    let empty = t == "{}";
    let text = match kind {
        0 => format!("{{{}{}", " ".repeat(need), &t[1..]),
        1 => format!("{{\"zz\":\"{}\"{}{}", "Z".repeat(need), if empty { "" } else { "," }, &t[1..]),
        2 => format!("{}{}\"zz\":\"{}\"}}", &t[..t.len() - 1], if empty { "" } else { "," }, "Z".repeat(need)),
        _ => {
            let (from, c) = if t.contains("\"s\":\"ok\"") { ("\"s\":\"ok\"", "ok") } else if t.contains("\"s\":\"e\"") { ("\"s\":\"e\"", "e") } else { return None };
            t.replacen(from, &format!("\"s\":\"{c}{}\"", "S".repeat(need)), 1)
        }
    };
    Some(Frame { text, has_error: f.has_error, error_name: f.error_name.clone(), what: format!("{}; bulked to {} bytes by {}", f.what, size, BULK_KINDS[kind]) })
}

/// Base frames followed by every applicable bulked form of each.
fn all_frames() -> (Vec<Frame>, usize) {
    let base = frames();
    let n = base.len();
    let mut out = base.clone();
    for f in &base {
        for kind in 0..BULK_KINDS.len() {
            for size in BULK_SIZES {
                if let Some(b) = bulked(f, kind, size) {
                    out.push(b);
                }
            }
        }
    }
    // the same replies with member names spelled with JSON escapes (`"\u0065rror"` is the member
    // `error`): each of the three names alone, and all at once
    const NAMES: [(&str, &str); 3] = [("\"error\":", "\"\\u0065rror\":"), ("\"parameters\":", "\"\\u0070arameters\":"), ("\"continues\":", "\"\\u0063ontinues\":")];
    for f in &base {
        let mut all = f.text.clone();
        for (plain, escaped) in NAMES {
            if f.text.contains(plain) {
                out.push(Frame { text: f.text.replacen(plain, escaped, 1), has_error: f.has_error, error_name: f.error_name.clone(), what: format!("{}; member name {plain} spelled with an escape", f.what) });
                all = all.replacen(plain, escaped, 1);
            }
        }
        if all != f.text {
            out.push(Frame { text: all, has_error: f.has_error, error_name: f.error_name.clone(), what: format!("{}; every member name spelled with an escape", f.what) });
        }
        // ... and the error's name itself (its first character and the first one after the last dot)
        if let Some(name) = f.error_name.as_deref().filter(|n| !n.is_empty()) {
            let plain = format!("\"error\":\"{name}\"");
            let esc = |i: usize| format!("\"error\":\"{}\\u{:04x}{}\"", &name[..i], name.as_bytes()[i] as u32, &name[i + 1..]);
            let mut at = vec![0usize];
            if let Some(d) = name.rfind('.').filter(|d| d + 1 < name.len()) {
                at.push(d + 1);
            }
            for i in at {
                out.push(Frame { text: f.text.replacen(&plain, &esc(i), 1), has_error: true, error_name: f.error_name.clone(), what: format!("{}; character {i} of the error name spelled with an escape", f.what) });
            }
        }
    }
    (out, n)
}

/// What the statement says about an error reply, worked out from the reply's JSON value alone -
/// not with the library's own decoders, which are what is being checked.  `Unclear` where the
/// statement leaves room (ill-formed or surplus parameters): there the older, weaker rule applies.
enum Structural {
    Standard(String),
    Method(String),
    Unclear,
}

fn structural(text: &str, declared: &[&str]) -> Structural {
    let Ok(v) = serde_json::from_str::<Value>(text) else { return Structural::Unclear };
    let Some(name) = v.get("error").and_then(|e| e.as_str()) else { return Structural::Unclear };
    let params = v.get("parameters");
    let empty = match params {
        None | Some(Value::Null) => true,
        Some(Value::Object(m)) => m.is_empty(),
        _ => false,
    };
    let only_string = |field: &str| -> Option<String> {
        let m = params?.as_object()?;
        if m.len() != 1 {
            return None;
        }
        m.get(field)?.as_str().map(|s| s.to_string())
    };
    if let Some(short) = name.strip_prefix("org.varlink.service.") {
        let field = match short {
            "InterfaceNotFound" => "interface",
            "MethodNotFound" | "MethodNotImplemented" => "method",
            "InvalidParameter" => "parameter",
            "PermissionDenied" | "ExpectedMore" => return if empty { Structural::Standard(short.to_string()) } else { Structural::Unclear },
            _ => return Structural::Unclear,
        };
        return match only_string(field) {
            Some(s) => Structural::Standard(format!("{short} {{ {field}: {s:?} }}")),
            None => Structural::Unclear,
        };
    }
    if !declared.contains(&name) {
        return Structural::Unclear;
    }
    match name {
        "a.Unit" if empty => Structural::Method("Unit".into()),
        "org.varlink.services.Busy" if empty => Structural::Method("Busy".into()),
        "org.varlink.services.Slow" => match params.and_then(|p| p.as_object()).filter(|m| m.len() == 1).and_then(|m| m.get("n")).and_then(|n| n.as_u64()).filter(|n| *n <= 255) {
            Some(n) => Structural::Method(format!("Slow {{ n: {n} }}")),
            None => Structural::Unclear,
        },
        "a.IOError" => match params.and_then(|p| p.as_object()).filter(|m| m.len() == 1).and_then(|m| m.get("n")).and_then(|n| n.as_u64()).filter(|n| *n <= 255) {
            Some(n) => Structural::Method(format!("IoErr {{ n: {n} }}")),
            None => Structural::Unclear,
        },
        "a.St" => {
            let Some(m) = params.and_then(|p| p.as_object()) else { return Structural::Unclear };
            match (m.len(), m.get("n").and_then(|n| n.as_u64()).filter(|n| *n <= 255), m.get("s").and_then(|s| s.as_str())) {
                (2, Some(n), Some(s)) => Structural::Method(format!("St {{ n: {n}, s: {s:?} }}")),
                _ => Structural::Unclear,
            }
        }
        _ => Structural::Unclear,
    }
}

#[derive(Debug, PartialEq)]
enum Got {
    Success(String),
    MethodErr(String),
    ServiceErr(String),
    OtherErr,
    Stall,
}

macro_rules! run_one {
    ($P:ty, $E:ty, $declared:expr, $frame:expr, $path:expr, $m:ident) => {{
        let f: &Frame = $frame;
        let wire = Wire::new(0, None);
        let mut bytes = Vec::new();
        if $path == 2 {
            bytes.extend_from_slice(b"{\"parameters\":{\"first\":true}}\0");
        }
        if $path == 3 {
            // the reply under test follows a reply that continues (it is the next item of a stream)
            bytes.extend_from_slice(b"{\"parameters\":{\"first\":true},\"continues\":true}\0");
        }
        bytes.extend_from_slice(f.text.as_bytes());
        bytes.push(0);
        wire.arrive(&bytes);
        let mut conn = wire.connection();
        if $path == 2 || $path == 3 {
            // the reply under test is the second frame of one arrival: the first one is taken off first
            match complete_or_stall(conn.receive_reply::<Value, E0>()) {
                Some(Ok(Ok(_))) => {}
                other => xplore::bug!("the leading success reply was not received as one: {other:?}"),
            }
        }
        let got = if $path == 4 {
            // the generated proxy method (its success value is the output, not the whole reply)
            match complete_or_stall(conn.$m()) {
                None => Got::Stall,
                Some(Ok(Ok(r))) => Got::Success(format!("{r:?}")),
                Some(Ok(Err(e))) => Got::MethodErr(format!("{e:?}")),
                Some(Err(zlink_core::Error::VarlinkService(e))) => Got::ServiceErr(format!("{e:?}")),
                Some(Err(_)) => Got::OtherErr,
            }
        } else {
            let r = if $path != 1 { complete_or_stall(conn.receive_reply::<$P, $E>()) } else { complete_or_stall(conn.call_method::<_, $P, $E>(&Call::new(Ping { method: "a.Ping" }))) };
            match r {
                None => Got::Stall,
                Some(Ok(Ok(r))) => Got::Success(format!("{r:?}")),
                Some(Ok(Err(e))) => Got::MethodErr(format!("{e:?}")),
                Some(Err(zlink_core::Error::VarlinkService(e))) => Got::ServiceErr(format!("{e:?}")),
                Some(Err(_)) => Got::OtherErr,
            }
        };
        // the oracle, from the text of the frame
        let declared: &[&str] = $declared;
        let std_err = serde_json::from_str::<varlink_service::Error>(&f.text).ok().filter(|_| f.error_name.as_deref().map_or(false, |n| n.starts_with("org.varlink.service.")));
        let as_err = serde_json::from_str::<$E>(&f.text).ok();
        let as_ok = serde_json::from_str::<Reply<$P>>(&f.text).ok();
        let verdict: Result<(), (&str, String)> = if f.has_error {
            match &got {
                Got::Success(s) => Err(("classify:error-reply-reported-as-success", format!("reported Ok(Ok({s}))"))),
                _ => {
                    let st = structural(&f.text, declared);
                    if let Structural::Standard(d) = &st {
                        if got == Got::ServiceErr(d.clone()) {
                            Ok(())
                        } else {
                            Err(("classify:standard-error-not-reported-as-service-error", format!("expected Err(VarlinkService({d})), got {got:?}")))
                        }
                    } else if let Structural::Method(d) = &st {
                        if got == Got::MethodErr(d.clone()) {
                            Ok(())
                        } else {
                            Err(("classify:declared-error-not-reported-as-method-error", format!("expected Ok(Err({d})), got {got:?}")))
                        }
                    } else if let Some(se) = &std_err {
                        if got == Got::ServiceErr(format!("{se:?}")) {
                            Ok(())
                        } else {
                            Err(("classify:standard-error-not-reported-as-service-error", format!("expected Err(VarlinkService({se:?})), got {got:?}")))
                        }
                    } else if let (Some(e), true) = (&as_err, f.error_name.as_deref().map_or(false, |n| declared.contains(&n))) {
                        if got == Got::MethodErr(format!("{e:?}")) {
                            Ok(())
                        } else {
                            Err(("classify:declared-error-not-reported-as-method-error", format!("expected Ok(Err({e:?})), got {got:?}")))
                        }
                    } else {
                        match &got {
                            Got::OtherErr => Ok(()),
                            Got::MethodErr(e) => Err(("classify:unrecognised-error-reported-as-method-error", format!("the error type does not declare/recognise this reply, yet Ok(Err({e})) was reported"))),
                            Got::ServiceErr(e) => Err(("classify:non-standard-error-reported-as-service-error", format!("Err(VarlinkService({e}))"))),
                            g => Err(("classify:error-reply-mishandled", format!("{g:?}"))),
                        }
                    }
                }
            }
        } else {
            match (&got, &as_ok) {
                (Got::Success(s), Some(r)) if *s == format!("{r:?}") => Ok(()),
                (Got::OtherErr, None) => Ok(()),
                // what a generated method makes of a success whose parameters are absent or do not
                // fit its output type is C12's subject; here it must just not be an error reply
                (Got::Success(_) | Got::OtherErr, _) if $path == 4 => Ok(()),
                (Got::MethodErr(_) | Got::ServiceErr(_), _) => Err(("classify:success-reply-reported-as-error", format!("{got:?}"))),
                (g, Some(r)) => Err(("classify:success-reply-mishandled", format!("expected Ok(Ok({r:?})), got {g:?}"))),
                (g, None) => Err(("classify:undecodable-success-not-an-error", format!("parameters do not fit the expected type, yet {g:?}"))),
            }
        };
        (verdict, got)
    }};
}

const PATHS: [&str; 5] = ["receive_reply", "call_method", "receive_reply, as the second frame of one arrival", "receive_reply, right after a reply that continues", "a generated proxy method"];
const NP: usize = 5;
const NE: usize = 4;

fn one(fr: &[Frame], i: u64, sink: &mut Sink<'_>) {
    let nf = fr.len() as u64;
    let f = &fr[(i % nf) as usize];
    let rest = i / nf;
    let (p, e, path) = ((rest % NP as u64) as usize, (rest / NP as u64 % NE as u64) as usize, (rest / (NP * NE) as u64) as usize);
    let pnames = ["()", "AllOpt{a:Option<u8>}", "serde_json::Value", "Strict{n:u8,s:String}", "Option<Strict>"];
    let enames = ["E1{Unit,St{n,s:String},IOError{n}}", "E2<'a>{Unit,St{n,s:&str},IOError{n}}", "E0{}", "E3 of interface org.varlink.services {Busy,Slow{n}}"];
    let case = json!({"frame": f.text, "what": f.what, "expected_parameters": pnames[p], "error_type": enames[e], "path": PATHS[path], "index": i});
    const D: &[&str] = &["a.Unit", "a.St", "a.IOError"];
    const NONE: &[&str] = &[];
    const D3: &[&str] = &["org.varlink.services.Busy", "org.varlink.services.Slow"];
    macro_rules! with_e {
        ($P:ty, $m0:ident, $m1:ident, $m2:ident, $m3:ident) => {
            match e {
                0 => run_one!($P, E1, D, f, path, $m0),
                1 => run_one!($P, E2<'_>, D, f, path, $m1),
                2 => run_one!($P, E0, NONE, f, path, $m2),
                _ => run_one!($P, E3, D3, f, path, $m3),
            }
        };
    }
    let (verdict, got) = match p {
        0 => with_e!((), p0e0, p0e1, p0e2, p0e3),
        1 => with_e!(AllOpt, p1e0, p1e1, p1e2, p1e3),
        2 => with_e!(Value, p2e0, p2e1, p2e2, p2e3),
        3 => with_e!(Strict, p3e0, p3e1, p3e2, p3e3),
        _ => with_e!(Option<Strict>, p4e0, p4e1, p4e2, p4e3),
    };
    if f.has_error {
        sink.goal("reply-with-error-member");
        if f.error_name.is_none() {
            sink.goal("error-member-that-is-not-a-string");
        }
        if f.text.contains("\\u0065rror") {
            sink.goal("error-member-spelled-with-an-escape");
        }
        if f.text.contains("\"n\":7") {
            sink.goal("error-reply-whose-parameters-fit-the-success-type");
            if f.text.len() > 1024 {
                sink.goal("long-error-reply-whose-parameters-fit-the-success-type");
            }
        }
    }
    match verdict {
        Ok(()) => {
            if sink.wants_sample() {
                let g = format!("{got:?}");
                sink.sample(|| json!({"case": case, "reported": g}));
            }
            let kind = match got {
                Got::Success(_) => 0u64,
                Got::MethodErr(_) => 1,
                Got::ServiceErr(_) => 2,
                Got::OtherErr => 3,
                Got::Stall => 4,
            };
            sink.state(H64::new().u(kind).u(p as u64).u(e as u64).get());
            sink.pass(H64::new().s(&f.text).u(p as u64).u(e as u64).u(kind).get());
        }
        Err((class, detail)) => sink.fail(class, format!("{detail}; frame `{}` ({}) as <{}, {}> via {}", f.text, f.what, pnames[p], enames[e], PATHS[path]), case),
    }
}

pub fn run(tier: Tier) -> i32 {
    let mut rep = Report::new("C04", tier.name());
    let (fr, nbase) = all_frames();
    rep.rule = format!("complete product: {} reply frames ({nbase} base frames + each extended by one character or bulked up to 300/1100/2100/4700 bytes in up to four meaning-preserving ways: whitespace, an unknown member in front / at the end, a long string parameter; + each with its member names spelled with JSON escapes; base frames: success / declared unit and struct errors with right, wrong-typed, missing, extra, absent parameters / undeclared errors / the six org.varlink.service errors with and without their parameters / error replies whose parameters fit the expected success type / an `error` member that is not a string (null, a number, a boolean, an object, an array) with absent, null, empty and success-fitting parameters; x continues absent|true|false x every member order) x 5 expected parameter types x 4 error types (derived, derived with lifetime, empty enum, derived for an interface named org.varlink.services) x {{receive_reply, call_method, receive_reply as the second frame of one arrival, receive_reply right after a reply with continues:true, a generated proxy method}}. Distinct = distinct (frame, types, classification)", fr.len());
    rep.assumptions = vec![
        "an error type recognises a reply whose error name is one of its declared variants and whose parameters are exactly the variant's fields with values of the right types (none for a field-less variant: absent, null or {}); likewise for the six standard errors. This is decided from the reply's JSON value, not with the library's decoders; members of the reply other than error and parameters (continues, unknown ones) do not matter. Where the parameters are ill-formed or have surplus members the statement leaves room: there a reply counts as recognised iff serde_json decodes the frame as the error type".into(),
        "a standard error is one whose name is in org.varlink.service and which decodes as varlink_service::Error; ill-formed ones must simply not be a success".into(),
    ];
    rep.require_goal("reply-with-error-member");
    rep.require_goal("error-reply-whose-parameters-fit-the-success-type");
    rep.require_goal("long-error-reply-whose-parameters-fit-the-success-type");
    rep.require_goal("error-member-spelled-with-an-escape");
    rep.require_goal("error-member-that-is-not-a-string");
    let cfg = Config { max_wall: std::time::Duration::from_secs(tier.pick(60, 600)), ..Default::default() };
    let n = fr.len() as u64 * NP as u64 * NE as u64 * PATHS.len() as u64;
    rep.add(sweep("product", n, &cfg, |i, s| one(&fr, i, s)));
    rep.finish()
}

pub fn replay(v: &Value) -> Replayed {
    let (fr, _) = all_frames();
    let idx = v["case"]["index"].as_u64().or(v["index"].as_u64()).unwrap_or(0);
    let st = xplore::sweep_one("replay", idx, &Config { threads: 1, ..Default::default() }, |i, s| one(&fr, i, s));
    let _ = Map::<String, Value>::new();
    match st.violations.into_iter().next() {
        Some((class, rec)) => Replayed::Fail { trace: vec![format!("case {}", v["case"])], class, detail: rec.detail },
        None => Replayed::Pass(vec![format!("case {}", v["case"])]),
    }
}
