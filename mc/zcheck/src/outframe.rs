//! C02 — outbound framing: one JSON document plus one NUL per accepted message, in order, one
//! write per flush, refused messages contribute nothing.
//!
//! Seam: `Connection::{enqueue_call, send_call, send_reply, send_error, flush}` over a `simnet` wire
//! that logs every `write(buf)` with its boundaries.
//! Oracle: a `Vec<u8>` of pending bytes; an accepted message appends its JSON document + NUL, a
//! refused one nothing; `send_*` / `flush` must produce exactly one write equal to the pending bytes
//! (none when nothing is pending).

use crate::common::{replay_dfs, Replayed, Tier};
use serde::ser::{SerializeMap, SerializeSeq};
use serde::Serialize;
use serde_json::{json, Value};
use simnet::{complete, show, ScriptSocket, Wire};
use std::collections::BTreeMap;
use xplore::report::Report;
use xplore::{explore, sweep, Config, Ctx, Harness, Sink, Verdict, H64};
use zlink_core::{Call, Connection, Reply};

type Conn = Connection<ScriptSocket>;

#[derive(Debug, Serialize)]
struct Pay {
    x: String,
}

/// Serializes `{"x":[0,0,…` (k zeros) and then fails.
#[derive(Debug)]
struct FailAfter(usize);
struct FailSeq(usize);
impl Serialize for FailSeq {
    fn serialize<S: serde::Serializer>(&self, s: S) -> Result<S::Ok, S::Error> {
        let mut q = s.serialize_seq(None)?;
        for _ in 0..self.0 {
            q.serialize_element(&0u8)?;
        }
        Err(serde::ser::Error::custom("scripted serialization failure"))
    }
}
impl Serialize for FailAfter {
    fn serialize<S: serde::Serializer>(&self, s: S) -> Result<S::Ok, S::Error> {
        let mut m = s.serialize_map(None)?;
        m.serialize_key("x")?;
        m.serialize_value(&FailSeq(self.0))?;
        m.end()
    }
}

#[derive(Clone, Copy, Debug, PartialEq, Eq)]
enum Kind {
    EnqCall,
    SendCall,
    SendReply,
    SendError,
}
const KINDS: [Kind; 4] = [Kind::EnqCall, Kind::SendCall, Kind::SendReply, Kind::SendError];

#[derive(Clone, Copy, Debug, PartialEq, Eq)]
enum FailKind {
    TupleKey,
    After(usize),
}
const FAILS: [FailKind; 4] = [FailKind::TupleKey, FailKind::After(0), FailKind::After(5), FailKind::After(150)];

#[derive(Clone, Debug)]
enum Op {
    Msg(Kind, usize),
    Flush,
    Fail(FailKind, bool), // bool: through send_* (true) or enqueue_call (false)
    /// (small-buffer build only) a message whose document is `d - 1` bytes longer than what still
    /// fits below the buffer limit together with its terminator: d = 0 fits exactly, d = 1 leaves
    /// no room for the terminator, larger ones do not fit at all.  Whether it is accepted is the
    /// implementation's answer (C17 judges that); C02 judges what happens to the bytes.
    Big(Kind, usize),
}

/// The buffer limit of the small-buffer build.
#[cfg(zlink_verif_small_buf)]
const LIMIT: usize = 4096;
#[cfg(zlink_verif_small_buf)]
const BIG_D: &[usize] = &[0, 1, 2, 300];
#[cfg(not(zlink_verif_small_buf))]
const LIMIT: usize = usize::MAX;
#[cfg(not(zlink_verif_small_buf))]
const BIG_D: &[usize] = &[];

fn pad(n: usize, salt: usize) -> String {
    (0..n).map(|i| (b'a' + ((i + salt) % 26) as u8) as char).collect()
}

/// What a message of kind `k` and target encoded length `len` looks like; returns the expected
/// JSON value and performs the operation.  The encoded length is `len` whenever the kind can reach
/// it, the kind's minimum otherwise.
fn do_msg(conn: &mut Conn, k: Kind, len: usize, salt: usize) -> (zlink_core::Result<()>, Vec<u8>) {
    match k {
        Kind::EnqCall => {
            // {"x":"…"} is 8 + n bytes
            let c = Call::new(Pay { x: pad(len.saturating_sub(8), salt) });
            let exp = serde_json::to_vec(&c).unwrap();
            (conn.enqueue_call(&c), exp)
        }
        Kind::SendCall => {
            // {"x":"…","more":true} is 20 + n bytes; below that a plain call
            let c = if len >= 20 { Call::new(Pay { x: pad(len - 20, salt) }).set_more(true) } else { Call::new(Pay { x: pad(len.saturating_sub(8), salt) }) };
            let exp = serde_json::to_vec(&c).unwrap();
            (complete(conn.send_call(&c)), exp)
        }
        Kind::SendReply => {
            // {"parameters":"…"} is 17 + n bytes; below that `{}`
            if len >= 17 {
                let r = Reply::new(Some(pad(len - 17, salt)));
                let exp = serde_json::to_vec(&r).unwrap();
                (complete(conn.send_reply(&r)), exp)
            } else {
                let r = Reply::<()>::new(None);
                let exp = serde_json::to_vec(&r).unwrap();
                (complete(conn.send_reply(&r)), exp)
            }
        }
        Kind::SendError => {
            if len >= 2 {
                let s = pad(len - 2, salt);
                let exp = serde_json::to_vec(&s).unwrap();
                (complete(conn.send_error(&s)), exp)
            } else {
                (complete(conn.send_error(&7u8)), b"7".to_vec())
            }
        }
    }
}

/// Encoded length of the document `do_msg(k, len)` sends.
fn doc_len(k: Kind, len: usize) -> usize {
    match k {
        Kind::EnqCall => len.max(8),
        Kind::SendCall => len.max(8),
        Kind::SendReply => {
            if len >= 17 {
                len
            } else {
                2
            }
        }
        Kind::SendError => len.max(1),
    }
}

fn do_fail(conn: &mut Conn, f: FailKind, through_send: bool) -> zlink_core::Result<()> {
    match (f, through_send) {
        (FailKind::TupleKey, false) => {
            let mut m = BTreeMap::new();
            m.insert((1u8, 2u8), 3u8);
            conn.enqueue_call(&Call::new(m))
        }
        (FailKind::TupleKey, true) => {
            let mut m = BTreeMap::new();
            m.insert((1u8, 2u8), 3u8);
            complete(conn.send_error(&m))
        }
        (FailKind::After(k), false) => conn.enqueue_call(&Call::new(FailAfter(k))),
        (FailKind::After(k), true) => complete(conn.send_reply(&Reply::new(Some(FailAfter(k))))),
    }
}

/// The reference model plus the comparison against the wire's write log.
struct Model {
    pending: Vec<u8>,
    pending_docs: Vec<Vec<u8>>,
    writes_seen: usize,
    accepted: Vec<Vec<u8>>,
}

impl Model {
    fn new() -> Model {
        Model { pending: vec![], pending_docs: vec![], writes_seen: 0, accepted: vec![] }
    }
    fn accept(&mut self, doc: Vec<u8>) {
        self.pending.extend_from_slice(&doc);
        self.pending.push(0);
        self.pending_docs.push(doc.clone());
        self.accepted.push(doc);
    }
    /// A write is equal to the expectation if it is byte-identical, or (so that this check does not
    /// demand C03's byte-identity) if it splits at NUL into the same number of documents, each one a
    /// JSON document denoting the same value, with exactly one NUL after each and nothing else.
    fn same(expected_docs: &[Vec<u8>], got: &[u8]) -> bool {
        let mut exp = Vec::new();
        for d in expected_docs {
            exp.extend_from_slice(d);
            exp.push(0);
        }
        if exp == got {
            return true;
        }
        if got.last() != Some(&0) {
            return false;
        }
        let parts: Vec<&[u8]> = got[..got.len() - 1].split(|b| *b == 0).collect();
        if parts.len() != expected_docs.len() {
            return false;
        }
        parts.iter().zip(expected_docs).all(|(g, e)| match (serde_json::from_slice::<Value>(g), serde_json::from_slice::<Value>(e)) {
            (Ok(a), Ok(b)) => a == b,
            _ => false,
        })
    }
    /// After an operation that must flush (`flushes`) or must not write at all.
    fn check(&mut self, wire: &Wire, flushes: bool, what: &str) -> Result<(), (String, String)> {
        let w = wire.0.borrow();
        let new = &w.writes[self.writes_seen..];
        if flushes && !self.pending.is_empty() {
            if new.len() != 1 {
                let class = if new.is_empty() { "outframe:pending-data-not-written" } else { "outframe:flush-split-into-several-writes" };
                return Err((class.into(), format!("{what}: expected exactly one write of {} bytes, saw {} writes", self.pending.len(), new.len())));
            }
            if !Self::same(&self.pending_docs, &new[0]) {
                let class = if new[0].len() < self.pending.len() {
                    "outframe:write-misses-bytes"
                } else if new[0].len() > self.pending.len() {
                    "outframe:write-has-extra-bytes"
                } else {
                    "outframe:write-has-wrong-bytes"
                };
                return Err((class.into(), format!("{what}: expected write `{}` but transport got `{}`", show(&self.pending), show(&new[0]))));
            }
            self.writes_seen += 1;
            self.pending.clear();
            self.pending_docs.clear();
        } else if !new.is_empty() {
            return Err(("outframe:unexpected-write".into(), format!("{what}: nothing must be written here, but transport got `{}`", show(&new[0]))));
        }
        Ok(())
    }
}

fn buf_len(conn: &Conn) -> usize {
    conn.write().verif_buffer_range().1
}

// ------------------------------------------------------------------------------------------------
// (b) histories

struct Histories {
    max_ops: usize,
    reduced: bool,
}

impl Histories {
    fn lens(&self, free: usize) -> Vec<usize> {
        let f = free as i64;
        let cand: Vec<i64> = if self.reduced {
            vec![1, f - 1, f, f + 1, f + 255, f + 256]
        } else {
            vec![1, 2, 9, f - 2, f - 1, f, f + 1, f + 2, f + 254, f + 255, f + 256, f + 257, f + 258]
        };
        let mut v: Vec<usize> = cand.into_iter().filter(|x| *x >= 1).map(|x| x as usize).collect();
        v.sort();
        v.dedup();
        v
    }
}

impl Harness for Histories {
    fn run(&self, cx: &Ctx) -> Verdict {
        let wire = Wire::new(0, Some(cx.clone()));
        let mut conn = wire.connection();
        let mut m = Model::new();
        let n = 1 + cx.choose(self.max_ops, "ops:count-1");
        let mut h = H64::new();
        for step in 0..n {
            // free space seen by the next message: buffer length (hook accessor) minus pending bytes
            let free = buf_len(&conn).saturating_sub(m.pending.len());
            let lens = self.lens(free);
            let nmsg = lens.len() * KINDS.len();
            let nfail = FAILS.len() * 2;
            let nbig = if self.reduced { 0 } else { BIG_D.len() * KINDS.len() };
            let c = cx.choose(nmsg + 1 + nfail + nbig, "op");
            let op = if c < nmsg {
                Op::Msg(KINDS[c % KINDS.len()], lens[c / KINDS.len()])
            } else if c == nmsg {
                Op::Flush
            } else if c < nmsg + 1 + nfail {
                let k = c - nmsg - 1;
                Op::Fail(FAILS[k / 2], k % 2 == 1)
            } else {
                let k = c - nmsg - 1 - nfail;
                Op::Big(KINDS[k % KINDS.len()], BIG_D[k / KINDS.len()])
            };
            let what = format!("step {step} {op:?} (free space {free}, {} bytes pending)", m.pending.len());
            cx.log(|| format!("{what}"));
            let r = match &op {
                Op::Msg(k, len) => {
                    // driver-side goals are recorded before the implementation runs
                    let dl = doc_len(*k, *len);
                    if dl == free {
                        cx.goal("document-ends-exactly-at-buffer-end");
                    }
                    if dl + 1 == free {
                        cx.goal("terminator-in-last-byte");
                    }
                    if dl > free + 256 {
                        cx.goal("message-spans-two-growth-steps");
                    }
                    if !m.pending.is_empty() && *k != Kind::EnqCall {
                        cx.goal("send-with-earlier-enqueued");
                    }
                    let (res, doc) = do_msg(&mut conn, *k, *len, step);
                    if doc.len() != dl {
                        xplore::bug!("doc_len({k:?},{len}) = {dl} but the document has {} bytes", doc.len());
                    }
                    match res {
                        // with what is already pending this message reaches the buffer limit
                        // (small-buffer build, after an accepted limit-sized message): a refusal
                        Err(zlink_core::Error::BufferOverflow) if m.pending.len().saturating_add(dl + 1) >= LIMIT => m.check(&wire, false, &what),
                        Err(e) => return Verdict::fail("outframe:valid-message-refused", format!("{what}: returned {e:?}")),
                        Ok(()) => {
                            m.accept(doc);
                            m.check(&wire, *k != Kind::EnqCall, &what)
                        }
                    }
                }
                Op::Flush => {
                    if m.pending.is_empty() {
                        cx.goal("flush-with-nothing-pending");
                    }
                    if let Err(e) = complete(conn.flush()) {
                        return Verdict::fail("outframe:flush-failed", format!("{what}: returned {e:?}"));
                    }
                    m.check(&wire, true, &what)
                }
                Op::Big(k, d) => {
                    let len = (LIMIT.saturating_sub(m.pending.len() + 1) + d).max(1);
                    if *d == 1 {
                        cx.goal("document-ends-exactly-at-the-limit");
                    }
                    if !m.pending.is_empty() {
                        cx.goal("oversized-message-with-earlier-enqueued");
                    }
                    let (res, doc) = do_msg(&mut conn, *k, len, step);
                    match res {
                        Ok(()) => {
                            if *d >= 2 {
                                cx.goal("beyond-the-limit-yet-accepted");
                            }
                            m.accept(doc);
                            m.check(&wire, *k != Kind::EnqCall, &what)
                        }
                        // refused: nothing of it may ever reach the transport, what was enqueued
                        // before stays pending, and the connection carries on (the following steps
                        // and the final flush check exactly that)
                        Err(zlink_core::Error::BufferOverflow) if m.pending.len() + doc.len() + 1 >= LIMIT => {
                            cx.goal("message-refused-at-the-limit");
                            m.check(&wire, false, &what)
                        }
                        Err(e) => return Verdict::fail("outframe:oversized-message-wrong-error", format!("{what}: returned {e:?}")),
                    }
                }
                Op::Fail(f, through_send) => {
                    if !m.pending.is_empty() {
                        cx.goal("refused-message-with-earlier-enqueued");
                    }
                    let res = do_fail(&mut conn, *f, *through_send);
                    if res.is_ok() {
                        return Verdict::fail("outframe:unserializable-message-accepted", format!("{what}: returned Ok"));
                    }
                    m.check(&wire, false, &what)
                }
            };
            if let Err((class, detail)) = r {
                return Verdict::Fail(xplore::Violation { class, detail });
            }
            cx.state(H64::new().u(buf_len(&conn) as u64).u(m.pending.len() as u64).u(wire.write_count() as u64).get());
            h.u(m.pending.len() as u64).u(wire.write_count() as u64);
        }
        // finally everything still pending must come out with one flush, and the whole transport
        // stream must be the accepted documents, each followed by one NUL
        let what = "final flush".to_string();
        if let Err(e) = complete(conn.flush()) {
            return Verdict::fail("outframe:flush-failed", format!("{what}: returned {e:?}"));
        }
        if let Err((class, detail)) = m.check(&wire, true, &what) {
            return Verdict::Fail(xplore::Violation { class, detail });
        }
        let all = wire.written();
        let docs: Vec<Vec<u8>> = m.accepted.clone();
        if !Model::same(&docs, &all) && !(docs.is_empty() && all.is_empty()) {
            return Verdict::fail("outframe:stream-differs", format!("whole stream `{}` is not the accepted documents each followed by one NUL", show(&all)));
        }
        h.u(all.len() as u64);
        Verdict::Pass(h.get())
    }
}

// ------------------------------------------------------------------------------------------------
// (a) the full square of two message lengths

const SQ: u64 = 700;

fn square_case(idx: u64, sink: &mut Sink<'_>) {
    let form = idx / (SQ * SQ);
    let l1 = (idx / SQ % SQ) as usize + 1;
    let l2 = (idx % SQ) as usize + 1;
    let (k1, k2, flush_between) = match form {
        0 => (Kind::EnqCall, Kind::EnqCall, false),
        1 => (Kind::SendError, Kind::SendError, false),
        2 => (Kind::EnqCall, Kind::SendReply, false),
        _ => (Kind::EnqCall, Kind::SendCall, true),
    };
    let wire = Wire::new(0, None);
    let mut conn = wire.connection();
    let mut m = Model::new();
    let case = || json!({"form": form, "first": format!("{k1:?}({l1})"), "second": format!("{k2:?}({l2})"), "flush_between": flush_between});
    for (i, (k, l)) in [(k1, l1), (k2, l2)].into_iter().enumerate() {
        let free = buf_len(&conn).saturating_sub(m.pending.len());
        if doc_len(k, l) == free {
            sink.goal("document-ends-exactly-at-buffer-end");
        }
        let (res, doc) = do_msg(&mut conn, k, l, i);
        if i == 1 {
            sink.state(free as u64); // distinct free-space values met by the second message
        }
        if let Err(e) = res {
            sink.fail("outframe:valid-message-refused", format!("message {i} ({k:?}, {l} bytes) returned {e:?}"), case());
            return;
        }
        m.accept(doc);
        if let Err((c, d)) = m.check(&wire, k != Kind::EnqCall, &format!("message {i} ({k:?}, {l} bytes)")) {
            sink.fail(c, d, case());
            return;
        }
        if i == 0 && flush_between {
            let r = complete(conn.flush());
            if r.is_err() {
                sink.fail("outframe:flush-failed", format!("{r:?}"), case());
                return;
            }
            if let Err((c, d)) = m.check(&wire, true, "flush between") {
                sink.fail(c, d, case());
                return;
            }
        }
    }
    let r = complete(conn.flush());
    if r.is_err() {
        sink.fail("outframe:flush-failed", format!("{r:?}"), case());
        return;
    }
    if let Err((c, d)) = m.check(&wire, true, "final flush") {
        sink.fail(c, d, case());
        return;
    }
    let all = wire.written();
    if !Model::same(&m.accepted, &all) {
        sink.fail("outframe:stream-differs", format!("whole stream `{}`", show(&all)), case());
        return;
    }
    if sink.wants_sample() {
        sink.sample(case);
    }
    sink.steps(3);
    sink.pass(H64::new().u(form).u(buf_len(&conn) as u64).u(wire.write_count() as u64).get());
}

// ------------------------------------------------------------------------------------------------
// (c) payloads that contain the terminator byte and other characters JSON has to escape

#[derive(Debug, Serialize)]
struct Odd {
    c: char,
    s: String,
    m: BTreeMap<String, char>,
}

const ODD_CHARS: [char; 10] = ['\0', '\u{1}', '\n', '\u{1f}', '"', '\\', '\u{7f}', '\u{e9}', '\u{2028}', 'a'];

/// Two messages whose payloads hold `ODD_CHARS[i]` / `ODD_CHARS[j]` as a `char`, inside a string and
/// inside a map key, through one of three operation forms: each must reach the transport as one JSON
/// document denoting the same value, followed by the only NUL byte of the message.
fn odd_case(idx: u64, sink: &mut Sink<'_>) {
    let n = ODD_CHARS.len() as u64;
    let (form, i, j) = (idx / (n * n), (idx / n % n) as usize, (idx % n) as usize);
    let mk = |c: char| Odd { c, s: format!("x{c}{c}y{c}"), m: BTreeMap::from([(format!("k{c}"), c)]) };
    let case = || json!({"group": "odd-characters", "form": form, "first": format!("{:?}", ODD_CHARS[i]), "second": format!("{:?}", ODD_CHARS[j])});
    let wire = Wire::new(0, None);
    let mut conn = wire.connection();
    let mut m = Model::new();
    if ODD_CHARS[i] == '\0' || ODD_CHARS[j] == '\0' {
        sink.goal("payload-contains-the-terminator-byte");
    }
    for (step, c) in [ODD_CHARS[i], ODD_CHARS[j]].into_iter().enumerate() {
        let v = mk(c);
        let (res, doc, flushes) = match form {
            0 => {
                let call = Call::new(&v);
                (conn.enqueue_call(&call), serde_json::to_vec(&call).unwrap(), false)
            }
            1 => {
                let r = Reply::new(Some(&v));
                (complete(conn.send_reply(&r)), serde_json::to_vec(&r).unwrap(), true)
            }
            _ => (complete(conn.send_error(&v)), serde_json::to_vec(&v).unwrap(), true),
        };
        if let Err(e) = res {
            sink.fail("outframe:valid-message-refused", format!("message {step} with {c:?}: {e:?}"), case());
            return;
        }
        m.accept(doc);
        if let Err((c, d)) = m.check(&wire, flushes, &format!("message {step}")) {
            sink.fail(c, d, case());
            return;
        }
    }
    if let Err(e) = complete(conn.flush()) {
        sink.fail("outframe:flush-failed", format!("{e:?}"), case());
        return;
    }
    if let Err((c, d)) = m.check(&wire, true, "final flush") {
        sink.fail(c, d, case());
        return;
    }
    let all = wire.written();
    if all.iter().filter(|b| **b == 0).count() != 2 || !Model::same(&m.accepted, &all) {
        sink.fail("outframe:stream-differs", format!("whole stream `{}` is not two documents each followed by its only NUL", show(&all)), case());
        return;
    }
    sink.steps(2);
    sink.pass(H64::new().u(idx).get());
}

// ------------------------------------------------------------------------------------------------
// (d) large amounts: what one flush hands over is far beyond the buffer's growth step.  Needs the
// production buffer limit, so it runs in a child process of the main build.

/// Pending totals (terminators included): one below, at and one above every power of two from 4 KiB
/// to 1 MiB (quick: to 256 KiB), and a few sizes in between.
fn large_totals(tier: Tier) -> Vec<usize> {
    // (the quick list is a prefix of the thorough one, so that a case number means the same in both)
    let mut v = vec![5000, 70_000, 100_000, 200_001];
    for k in 12..=tier.pick(18, 20) {
        for d in [-1i64, 0, 1] {
            v.push(((1i64 << k) + d) as usize);
        }
    }
    v
}
const LARGE_FORMS: [&str; 5] = ["one send_error", "one enqueue_call + flush", "many small enqueue_call + flush", "one small enqueue_call + one large send_reply", "one large enqueue_call + many small ones + flush"];

fn large_case(totals: &[usize], idx: u64, sink: &mut Sink<'_>) {
    let form = (idx % LARGE_FORMS.len() as u64) as usize;
    let total = totals[(idx / LARGE_FORMS.len() as u64) as usize];
    let case = || json!({"group": "large", "form": LARGE_FORMS[form], "pending_bytes_at_the_flush": total});
    let wire = Wire::new(0, None);
    let mut conn = wire.connection();
    let mut m = Model::new();
    // (kind, encoded length of the document) in order; the last operation of forms 0 and 3 flushes
    let mut plan: Vec<(Kind, usize)> = Vec::new();
    match form {
        0 => plan.push((Kind::SendError, total - 1)),
        1 => plan.push((Kind::EnqCall, total - 1)),
        2 | 4 => {
            let mut left = total;
            if form == 4 {
                plan.push((Kind::EnqCall, total / 2));
                left -= total / 2 + 1;
            }
            let mut i = 0;
            while left > 0 {
                // documents of 90..=109 bytes; the last one takes what is left (at least 8 bytes)
                let want = 90 + (i * 7) % 20;
                let l = if left <= want + 1 + 9 { left - 1 } else { want };
                plan.push((Kind::EnqCall, l));
                left -= l + 1;
                i += 1;
            }
        }
        _ => {
            plan.push((Kind::EnqCall, 40));
            plan.push((Kind::SendReply, total - 42));
        }
    }
    if total > 65536 {
        sink.goal("more-than-64KiB-pending-at-one-flush");
    }
    if plan.len() > 100 {
        sink.goal("hundreds-of-messages-in-one-flush");
    }
    for (i, (k, l)) in plan.iter().enumerate() {
        let (res, doc) = do_msg(&mut conn, *k, *l, i);
        if doc.len() != *l {
            xplore::bug!("large: wanted a document of {l} bytes, built {}", doc.len());
        }
        if let Err(e) = res {
            sink.fail("outframe:valid-message-refused", format!("message {i} ({k:?}, {l} bytes) returned {e:?}"), case());
            return;
        }
        m.accept(doc);
        if let Err((c, d)) = m.check(&wire, *k != Kind::EnqCall, &format!("message {i} ({k:?}, {l} bytes)")) {
            sink.fail(c, d.chars().take(400).collect::<String>(), case());
            return;
        }
    }
    for what in ["flush", "second flush, nothing pending"] {
        if let Err(e) = complete(conn.flush()) {
            sink.fail("outframe:flush-failed", format!("{what}: {e:?}"), case());
            return;
        }
        if let Err((c, d)) = m.check(&wire, true, what) {
            sink.fail(c, d.chars().take(400).collect::<String>(), case());
            return;
        }
    }
    // the connection carries on: a small message afterwards is one write of its own
    let (res, doc) = do_msg(&mut conn, Kind::SendCall, 30, 1);
    if let Err(e) = res {
        sink.fail("outframe:valid-message-refused", format!("small message after the large flush: {e:?}"), case());
        return;
    }
    m.accept(doc);
    if let Err((c, d)) = m.check(&wire, true, "small message after the large flush") {
        sink.fail(c, d.chars().take(400).collect::<String>(), case());
        return;
    }
    if !Model::same(&m.accepted, &wire.written()) {
        sink.fail("outframe:stream-differs", "the whole stream is not the accepted documents each followed by one NUL".to_string(), case());
        return;
    }
    if sink.wants_sample() {
        sink.sample(case);
    }
    sink.steps(plan.len() as u64 + 3);
    sink.state(H64::new().u(buf_len(&conn) as u64).get());
    sink.pass(H64::new().u(idx).u(wire.write_count() as u64).get());
}

/// Child process of the main build (production buffer limit): prints one JSON line.
pub fn large_child(tier: Tier, only: Option<u64>) -> i32 {
    let totals = large_totals(tier);
    let cfg = Config { max_wall: std::time::Duration::from_secs(600), ..Default::default() };
    let n = (totals.len() * LARGE_FORMS.len()) as u64;
    let st = match only {
        Some(i) => xplore::sweep_one("large", i, &cfg, |i, s| large_case(&large_totals(Tier::Thorough), i, s)),
        None => sweep("large", n, &cfg, |i, s| large_case(&totals, i, s)),
    };
    crate::common::print_child_stats(&st);
    0
}

// ------------------------------------------------------------------------------------------------
// (e) payload shapes whose encoding has no content between its brackets: whatever the serializer
// does for them, the frame must still be one whole JSON document and one NUL

#[derive(Debug, Serialize)]
enum Ext {
    EmptyTuple(),
    EmptyStruct {},
    AllSkipped {
        #[serde(skip_serializing_if = "Option::is_none")]
        a: Option<u8>,
        #[serde(skip_serializing_if = "Option::is_none")]
        b: Option<u8>,
    },
    Unit,
    Newtype(()),
    Tuple(u8, ()),
}
#[derive(Debug, Serialize)]
struct NoFields {}
#[derive(Debug, Serialize)]
struct TupleOfNothing();
#[derive(Debug, Serialize)]
struct Shapes {
    v: ShapeV,
    after: u8,
}
#[derive(Debug, Serialize)]
#[serde(untagged)]
enum ShapeV {
    E(Ext),
    Es(Vec<Ext>),
    S(NoFields),
    T(TupleOfNothing),
    Seq(Vec<Vec<u8>>),
    Map(BTreeMap<String, BTreeMap<String, u8>>),
    Opt(Option<Option<u8>>),
    U(()),
}
const N_SHAPES: usize = 14;
fn shape(i: usize) -> Shapes {
    let v = match i {
        0 => ShapeV::E(Ext::EmptyTuple()),
        1 => ShapeV::E(Ext::EmptyStruct {}),
        2 => ShapeV::E(Ext::AllSkipped { a: None, b: None }),
        3 => ShapeV::E(Ext::AllSkipped { a: None, b: Some(1) }),
        4 => ShapeV::E(Ext::Unit),
        5 => ShapeV::E(Ext::Newtype(())),
        6 => ShapeV::E(Ext::Tuple(1, ())),
        7 => ShapeV::Es(vec![Ext::EmptyTuple(), Ext::EmptyStruct {}, Ext::AllSkipped { a: None, b: None }]),
        8 => ShapeV::S(NoFields {}),
        9 => ShapeV::T(TupleOfNothing()),
        10 => ShapeV::Seq(vec![vec![], vec![]]),
        11 => ShapeV::Map(BTreeMap::from([("k".to_string(), BTreeMap::new())])),
        12 => ShapeV::Opt(Some(None)),
        _ => ShapeV::U(()),
    };
    Shapes { v, after: i as u8 }
}

/// Errors of a derived error type whose variant has only optional fields (absent ones are left out
/// of `parameters`): every combination, in pairs; expected frames are built by hand, not with the
/// type's own Serialize impl.
#[derive(Debug, zlink_core::ReplyError)]
#[zlink(interface = "oe", crate = "zlink_core")]
enum OptErr {
    AllOpt { a: Option<u8>, b: Option<String> },
    Unit,
}
fn opt_err(i: usize) -> (OptErr, Value) {
    let p = |a: Option<u8>, b: Option<&str>| {
        let mut m = serde_json::Map::new();
        if let Some(a) = a {
            m.insert("a".into(), json!(a));
        }
        if let Some(b) = b {
            m.insert("b".into(), json!(b));
        }
        (OptErr::AllOpt { a, b: b.map(|x| x.to_string()) }, json!({"error": "oe.AllOpt", "parameters": m}))
    };
    match i {
        0 => p(None, None),
        1 => p(Some(7), None),
        2 => p(None, Some("text")),
        3 => p(Some(0), Some("")),
        _ => (OptErr::Unit, json!({"error": "oe.Unit"})),
    }
}
fn opt_err_case(idx: u64, sink: &mut Sink<'_>) {
    let (i, j) = ((idx / 5) as usize, (idx % 5) as usize);
    let case = || json!({"group": "optional-error-fields", "index": idx, "first": format!("{:?}", opt_err(i).0), "second": format!("{:?}", opt_err(j).0)});
    let wire = Wire::new(0, None);
    let mut conn = wire.connection();
    sink.goal("error-whose-fields-are-all-optional");
    let mut want = Vec::new();
    for k in [i, j] {
        let (e, v) = opt_err(k);
        if let Err(x) = complete(conn.send_error(&e)) {
            sink.fail("outframe:valid-message-refused", format!("{e:?}: {x:?}"), case());
            return;
        }
        want.push(v);
    }
    let w = wire.0.borrow();
    if w.writes.len() != 2 {
        sink.fail("outframe:flush-split-into-several-writes", format!("{} writes for two send_error calls", w.writes.len()), case());
        return;
    }
    for (k, wr) in w.writes.iter().enumerate() {
        let ok = wr.last() == Some(&0) && serde_json::from_slice::<Value>(&wr[..wr.len() - 1]).map_or(false, |mut g| {
            // an absent field may be written as null or left out
            if let Some(p) = g.get_mut("parameters").and_then(|p| p.as_object_mut()) {
                p.retain(|_, v| !v.is_null());
            }
            // an absent `parameters` and an empty one say the same for a variant without present fields
            if g.get("parameters").map_or(false, |p| p.as_object().map_or(false, |o| o.is_empty())) && want[k].get("parameters").map_or(true, |p| p.as_object().map_or(false, |o| o.is_empty())) {
                g.as_object_mut().unwrap().remove("parameters");
            }
            let mut e = want[k].clone();
            if e.get("parameters").map_or(false, |p| p.as_object().map_or(false, |o| o.is_empty())) {
                e.as_object_mut().unwrap().remove("parameters");
            }
            g == e
        });
        if !ok {
            sink.fail("outframe:write-is-not-the-one-document-of-its-message", format!("error #{k}: the transport got `{}`, the message is {}", show(wr), want[k]), case());
            return;
        }
    }
    sink.steps(2);
    sink.pass(H64::new().u(idx).get());
}

/// Phase map-keys: a message whose parameters hold a map with a key of every kind of the serde data
/// model, bare and wrapped in Some / a newtype struct (once and twice).  Whether such a message is
/// accepted is not judged here (C03 does that); an accepted one must reach the transport as one JSON
/// document (so: its keys as strings) denoting what serde_json makes of the value, a refused one must
/// leave nothing behind; the plain message after it goes out alone.
#[derive(Debug, Serialize)]
struct Keyed {
    m: crate::jsoneq::V,
    after: u8,
}
const KEY_WRAPS: [&str; 6] = ["bare", "Some", "newtype", "Some(Some)", "Some(newtype)", "newtype(Some)"];
const KEYED_CASES: u64 = 3 * 6 * crate::jsoneq::KEYS as u64 * 2;

fn keyed_case(idx: u64, sink: &mut Sink<'_>) {
    use crate::jsoneq::V;
    let nk = crate::jsoneq::KEYS as u64;
    let (two, k, wrap, form) = (idx % 2 == 1, (idx / 2 % nk) as usize, (idx / 2 / nk % 6) as usize, idx / 2 / nk / 6);
    let wrapped = |inner: V| -> V {
        let s = |x: V| V::Some(Box::new(x));
        let n = |x: V| V::NewtypeStruct(Box::new(x));
        match wrap {
            0 => inner,
            1 => s(inner),
            2 => n(inner),
            3 => s(s(inner)),
            4 => s(n(inner)),
            _ => n(s(inner)),
        }
    };
    let mut entries = vec![(wrapped(crate::jsoneq::key(k)), V::U8(1))];
    if two {
        entries.insert(0, (V::Str("first".into()), V::U8(0)));
        entries.push((V::Str("last".into()), V::U8(2)));
    }
    let v = Keyed { m: V::Map(entries), after: 7 };
    let case = || json!({"group": "map-keys", "form": form, "key": format!("{:?}", crate::jsoneq::key(k)), "wrapped": KEY_WRAPS[wrap], "entries": if two { 3 } else { 1 }, "index": idx});
    let wire = Wire::new(0, None);
    let mut conn = wire.connection();
    let (res, reference) = match form {
        0 => {
            let call = Call::new(&v);
            let r = conn.enqueue_call(&call);
            (r.and_then(|_| complete(conn.flush())), serde_json::to_value(&call))
        }
        1 => {
            let r = Reply::new(Some(&v));
            (complete(conn.send_reply(&r)), serde_json::to_value(&r))
        }
        _ => (complete(conn.send_error(&v)), serde_json::to_value(&v)),
    };
    let written = wire.written();
    match res {
        Err(_) => {
            sink.goal("message-refused-for-a-map-key");
            if !written.is_empty() {
                sink.fail("outframe:refused-message-left-bytes", format!("the message was refused, the transport has `{}`", show(&written)), case());
                return;
            }
        }
        Ok(()) => {
            sink.goal("message-with-a-non-string-map-key");
            let doc = match written.split_last() {
                Some((0, doc)) if !doc.contains(&0) => doc,
                _ => {
                    sink.fail("outframe:stream-differs", format!("the transport has `{}`: not one document followed by one NUL", show(&written)), case());
                    return;
                }
            };
            match (serde_json::from_slice::<Value>(doc), reference) {
                (Err(e), _) => {
                    sink.fail("outframe:frame-is-not-a-json-document", format!("`{}`: {e}", show(doc)), case());
                    return;
                }
                (Ok(got), Ok(want)) if got != want => {
                    sink.fail("outframe:write-has-wrong-bytes", format!("`{}` does not denote {want}", show(doc)), case());
                    return;
                }
                _ => {}
            }
        }
    }
    // the connection goes on: a plain message, alone in its write
    let before = wire.0.borrow().writes.len();
    let plain = Shapes { v: ShapeV::Seq(vec![]), after: 1 };
    let r = Reply::new(Some(&plain));
    if let Err(e) = complete(conn.send_reply(&r)) {
        sink.fail("outframe:valid-message-refused", format!("the plain message after it: {e:?}"), case());
        return;
    }
    let mut want = serde_json::to_vec(&r).unwrap();
    want.push(0);
    let w = wire.0.borrow();
    if w.writes.len() != before + 1 || w.writes[before] != want {
        sink.fail("outframe:stream-differs", format!("the plain message after it reached the transport as {:?}", w.writes[before..].iter().map(|x| show(x)).collect::<Vec<_>>()), case());
        return;
    }
    sink.steps(2);
    sink.pass(H64::new().u(idx).u(written.len() as u64).get());
}

fn shape_case(idx: u64, sink: &mut Sink<'_>) {
    let n = N_SHAPES as u64;
    let (form, i, j) = (idx / (n * n), (idx / n % n) as usize, (idx % n) as usize);
    let case = || json!({"group": "empty-shapes", "form": form, "first": format!("{:?}", shape(i).v), "second": format!("{:?}", shape(j).v), "index": idx});
    let wire = Wire::new(0, None);
    let mut conn = wire.connection();
    let mut m = Model::new();
    sink.goal("payload-with-an-empty-variant-or-container");
    for (step, k) in [i, j].into_iter().enumerate() {
        let v = shape(k);
        let (res, doc, flushes) = match form {
            0 => {
                let call = Call::new(&v);
                (conn.enqueue_call(&call), serde_json::to_vec(&call).unwrap(), false)
            }
            1 => {
                let r = Reply::new(Some(&v));
                (complete(conn.send_reply(&r)), serde_json::to_vec(&r).unwrap(), true)
            }
            _ => (complete(conn.send_error(&v)), serde_json::to_vec(&v).unwrap(), true),
        };
        if let Err(e) = res {
            sink.fail("outframe:valid-message-refused", format!("message {step} {:?}: {e:?}", v.v), case());
            return;
        }
        m.accept(doc);
        if let Err((c, d)) = m.check(&wire, flushes, &format!("message {step} {:?}", v.v)) {
            sink.fail(c, d, case());
            return;
        }
    }
    if let Err(e) = complete(conn.flush()) {
        sink.fail("outframe:flush-failed", format!("{e:?}"), case());
        return;
    }
    if let Err((c, d)) = m.check(&wire, true, "final flush") {
        sink.fail(c, d, case());
        return;
    }
    if !Model::same(&m.accepted, &wire.written()) {
        sink.fail("outframe:stream-differs", format!("whole stream `{}` is not two documents each followed by one NUL", show(&wire.written())), case());
        return;
    }
    sink.steps(2);
    sink.pass(H64::new().u(idx).get());
}

pub fn run(tier: Tier) -> i32 {
    let mut rep = Report::new("C02", tier.name());
    rep.rule = "phase square: both message lengths from 1..=700 (all 490 000 pairs) x 4 operation forms (enqueue+enqueue+flush, send+send, enqueue+send, enqueue+flush+send), so every free-space value 0..=600 and every relation to the 256-byte step is met when the second message starts; phase odd-characters: every pair of payloads holding NUL / control / quote / backslash / DEL / non-ASCII / U+2028 as a char, inside a string and inside a map key x 3 operation forms (each message must carry exactly one NUL byte: its terminator); phase empty-shapes: every pair of 14 payloads whose encoding has nothing between its brackets (enum variants with an empty or entirely skipped payload, field-less structs, empty and nested-empty containers, unit, Some(None)) x 3 operation forms; phase map-keys: a map with a key of each of 24 kinds (strings, chars, integers, unit variants, bool, floats, options, unit, bytes, sequences, tuples, maps, structs, ...), bare and wrapped in Some / a newtype struct (once and twice), alone or between two string keys, x 3 operation forms: accepted means one JSON document (keys as strings) denoting what serde_json makes of the value, refused means no bytes, and the plain message after it goes out alone; phase optional-error-fields: pairs of errors of a derived type whose variant has only optional fields, every combination present / absent, frames compared with hand-built JSON; phase large (run by the main build, production limit): one flush handing over 4 KiB .. 1 MiB (one below, at, one above every power of two; quick: to 256 KiB) built in five ways (one large message, hundreds of small ones, mixtures), then a second flush and a small message; phases hist*: DFS over all operation histories up to the stated length over {enqueue_call, send_call, send_reply, send_error} x lengths chosen relative to the current free space (1, 2, 9, free-2..free+2, free+254..free+258) + flush + 4 unserializable messages (tuple map key; Serialize impl failing after 0/5/150 elements) through enqueue and through send. Outcomes are distinct (pending length, write count) sequences; states are (buffer length, pending length, writes) triples".into();
    rep.assumptions = vec![
        "serde_json::to_vec is the meaning of `the JSON document of a message`; a write that differs in bytes but splits at NUL into documents denoting the same values is accepted here (byte identity is C03)".into(),
        "the scripted WriteHalf accepts every write completely (write faults and partial writes are C09/C19)".into(),
    ];
    for g in [
        "document-ends-exactly-at-buffer-end",
        "terminator-in-last-byte",
        "message-spans-two-growth-steps",
        "flush-with-nothing-pending",
        "refused-message-with-earlier-enqueued",
        "send-with-earlier-enqueued",
    ] {
        rep.require_goal(g);
    }
    if !BIG_D.is_empty() {
        for g in ["document-ends-exactly-at-the-limit", "message-refused-at-the-limit", "oversized-message-with-earlier-enqueued"] {
            rep.require_goal(g);
        }
        rep.rule.push_str("; built with the buffer limit lowered to 4096 bytes (hook zlink_verif_small_buf), the full histories also contain messages sized against the limit: the document that fits exactly with its terminator, the one that leaves no room for the terminator, one and 300 bytes more - whether such a message is accepted is C17's question, here a refused one must contribute no bytes, now or at any later flush, and leave the earlier enqueued messages and the connection usable");
        rep.assumptions.push("this check is built with the buffer limit lowered to 4096 bytes so that a refusal by size is an affordable operation; all other sizes used stay below 1.5 KB".into());
    }
    let wall = std::time::Duration::from_secs(tier.pick(60, 1500));
    let cfg = Config { max_wall: wall, ..Default::default() };
    rep.add(sweep("square", 4 * SQ * SQ, &cfg, square_case));
    rep.require_goal("payload-contains-the-terminator-byte");
    rep.add(sweep("odd-characters", 3 * (ODD_CHARS.len() * ODD_CHARS.len()) as u64, &cfg, odd_case));
    rep.require_goal("payload-with-an-empty-variant-or-container");
    rep.add(sweep("empty-shapes", 3 * (N_SHAPES * N_SHAPES) as u64, &cfg, shape_case));
    rep.require_goal("message-refused-for-a-map-key");
    rep.require_goal("message-with-a-non-string-map-key");
    rep.add(sweep("map-keys", KEYED_CASES, &cfg, keyed_case));
    rep.require_goal("error-whose-fields-are-all-optional");
    rep.add(sweep("optional-error-fields", 25, &cfg, opt_err_case));
    let plan: Vec<(&str, usize, bool)> = match tier {
        Tier::Quick => vec![("hist3-full", 3, false), ("hist4-reduced", 4, true)],
        Tier::Thorough => vec![("hist4-full", 4, false), ("hist5-reduced", 5, true)],
    };
    for (name, max_ops, reduced) in plan {
        let h = Histories { max_ops, reduced };
        rep.add(explore(name, json!({"max_ops": max_ops, "reduced": reduced}), &h, &cfg));
    }
    // large amounts per flush, with the production limit (main build, child process)
    rep.require_goal("more-than-64KiB-pending-at-one-flush");
    rep.require_goal("hundreds-of-messages-in-one-flush");
    if let Err(code) = crate::common::child_phase(&mut rep, "main", "outframe-large", tier, "large(child, production limit)") {
        return code;
    }
    // the transports zlink ships, with sends that are given up while pending: the raw bytes a std
    // reader takes off the other end of a real socket pair
    rep.require_goal("send-abandoned-then-more-messages-over-a-real-socket");
    rep.rule.push_str("; phase raw-wire (child process `sockets c02-child`): over real socket pairs with the zlink-tokio / zlink-smol transports, 2..3 messages (one of them 70..150 KB) sent with send_call or each as a chain of its own, where one send is abandoned at its 1st / 2nd / 4th pending poll and the next sends and a final flush follow, x how fast the raw reader at the other end takes bytes off x smallest / default socket buffers: the reader must see every message once, in order, each followed by one NUL");
    if let Err(code) = crate::common::child_phase_bin(&mut rep, "main", "sockets", "c02-child", tier, "raw-wire/abandoned-sends/tokio+smol(child)") {
        return code;
    }
    rep.finish()
}

pub fn replay(v: &Value) -> Replayed {
    if let Some(r) = crate::common::replay_child(v) {
        return r;
    }
    if v["kind"] == "sweep" {
        let idx = v["index"].as_u64().unwrap_or(0);
        let cfg = Config { threads: 1, ..Default::default() };
        let st = if v["case"]["group"] == "optional-error-fields" {
            xplore::sweep_one("optional-error-fields", v["case"]["index"].as_u64().unwrap_or(idx), &cfg, opt_err_case)
        } else if v["case"]["group"] == "map-keys" {
            xplore::sweep_one("map-keys", v["case"]["index"].as_u64().unwrap_or(idx), &cfg, keyed_case)
        } else if v["case"]["group"] == "empty-shapes" {
            xplore::sweep_one("empty-shapes", v["case"]["index"].as_u64().unwrap_or(idx), &cfg, shape_case)
        } else if v["case"]["group"] == "odd-characters" { xplore::sweep_one("odd-characters", idx, &cfg, odd_case) } else { xplore::sweep_one("square", idx, &cfg, square_case) };
        return match st.violations.into_iter().next() {
            Some((class, rec)) => Replayed::Fail { trace: vec![format!("sweep case {}", v["case"])], class, detail: rec.detail },
            None => Replayed::Pass(vec![format!("sweep case {}", v["case"])]),
        };
    }
    let h = Histories { max_ops: v["harness"]["max_ops"].as_u64().unwrap_or(4) as usize, reduced: v["harness"]["reduced"].as_bool().unwrap_or(false) };
    replay_dfs(&h, v)
}
