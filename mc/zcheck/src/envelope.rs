//! C05 — call, reply and error envelopes follow the Varlink schema and round-trip.
//!
//! Everything here is a finite product enumerated completely: flag sets x member permutations x
//! method types; error enums x member orders x {absent, null, {}}; Reply<T> shapes; the unit-output
//! proxy method and the library's own `org.varlink.service` method and error types.  Expected JSON is
//! built structurally from the value, never through the code under test.

use crate::common::{Replayed, Tier};
use serde::{Deserialize, Serialize};
use serde_json::{json, Map, Value};
use simnet::{complete, complete_or_stall, Wire};
use std::collections::BTreeMap;
use xplore::report::Report;
use xplore::{sweep, Config, Sink, H64};
use zlink_core::{varlink_service, Call, Reply};

// ---------------------------------------------------------------------------------------------
// method types

#[derive(Debug, Serialize, Deserialize, PartialEq, Clone)]
#[serde(tag = "method", content = "parameters")]
enum MA<'a> {
    #[serde(rename = "a.U")]
    U,
    #[serde(rename = "a.S")]
    S {
        n: u32,
        #[serde(borrow)]
        s: &'a str,
    },
    #[serde(rename = "a.O")]
    O { v: Vec<u8>, name: String },
}

#[derive(Debug, Serialize, Deserialize, PartialEq, Clone)]
#[serde(deny_unknown_fields)]
struct StrictParams {
    n: u32,
}
#[derive(Debug, Serialize, Deserialize, PartialEq, Clone)]
#[serde(deny_unknown_fields)]
struct Strict {
    method: String,
    parameters: StrictParams,
}

/// Captures every member the method type is shown.
#[derive(Debug, Serialize, Deserialize, PartialEq, Clone)]
struct Capt {
    method: String,
    #[serde(flatten)]
    rest: BTreeMap<String, Value>,
}

fn permutations(n: usize) -> Vec<Vec<usize>> {
    fn rec(cur: &mut Vec<usize>, used: &mut Vec<bool>, n: usize, out: &mut Vec<Vec<usize>>) {
        if cur.len() == n {
            out.push(cur.clone());
            return;
        }
        for i in 0..n {
            if !used[i] {
                used[i] = true;
                cur.push(i);
                rec(cur, used, n, out);
                cur.pop();
                used[i] = false;
            }
        }
    }
    let mut out = vec![];
    rec(&mut vec![], &mut vec![false; n], n, &mut out);
    out
}

fn text_in_order(members: &[(String, Value)], order: &[usize]) -> String {
    let parts: Vec<String> = order.iter().map(|i| format!("{}:{}", serde_json::to_string(&members[*i].0).unwrap(), members[*i].1)).collect();
    format!("{{{}}}", parts.join(","))
}

/// Like `text_in_order`, with the first character of member `esc`'s name written as `\uXXXX`.
fn text_in_order_escaped(members: &[(String, Value)], order: &[usize], esc: usize) -> String {
    let parts: Vec<String> = order
        .iter()
        .map(|i| {
            let name = &members[*i].0;
            let key = if *i == esc { format!("\"\\u{:04x}{}\"", name.chars().next().unwrap() as u32, &name[1..]) } else { serde_json::to_string(name).unwrap() };
            format!("{}:{}", key, members[*i].1)
        })
        .collect();
    format!("{{{}}}", parts.join(","))
}

/// Encode through zlink's own serializer (the public send path) and return the frame as a Value.
fn wire_encode<M: Serialize + std::fmt::Debug>(c: &Call<M>) -> Result<(Vec<u8>, Value), String> {
    let wire = Wire::new(0, None);
    let mut conn = wire.connection();
    complete(conn.send_call(c)).map_err(|e| format!("send_call: {e:?}"))?;
    let mut b = wire.written();
    if b.pop() != Some(0) {
        return Err("frame not NUL-terminated".into());
    }
    let v = serde_json::from_slice(&b).map_err(|e| format!("frame is not JSON: {e}"))?;
    Ok((b, v))
}

fn flags_of(i: usize) -> (bool, bool, bool) {
    (i & 1 != 0, i & 2 != 0, i & 4 != 0)
}

/// (A1) encode + round trip for one method value and all 8 flag sets.
fn call_encode_case<'a, M>(name: &str, m: &M, sink: &mut Sink<'_>)
where
    M: Serialize + Deserialize<'a> + PartialEq + Clone + std::fmt::Debug,
{
    let own = serde_json::to_value(m).unwrap();
    for f in 0..8 {
        let (o, mo, u) = flags_of(f);
        let c = Call::new(m.clone()).set_oneway(o).set_more(mo).set_upgrade(u);
        let case = json!({"group": "call-encode", "method_type": name, "method": own, "oneway": o, "more": mo, "upgrade": u});
        let mut expect = own.as_object().cloned().unwrap_or_default();
        if o {
            expect.insert("oneway".into(), json!(true));
        }
        if mo {
            expect.insert("more".into(), json!(true));
        }
        if u {
            expect.insert("upgrade".into(), json!(true));
        }
        let expect = Value::Object(expect);
        let (bytes, got) = match wire_encode(&c) {
            Ok(x) => x,
            Err(e) => {
                sink.fail("envelope:call-not-encodable", e, case);
                continue;
            }
        };
        if got != expect {
            sink.fail("envelope:call-encoding-differs-from-schema", format!("encoded `{got}`, schema says `{expect}`"), case);
            continue;
        }
        if serde_json::to_value(&c).ok().as_ref() != Some(&expect) {
            sink.fail("envelope:call-encoding-differs-from-schema", format!("through serde_json: `{:?}`, schema says `{expect}`", serde_json::to_value(&c)), case);
            continue;
        }
        // decode(encode(c)) == c; the bytes outlive the decoded value only inside this block
        let bytes: &'a [u8] = Box::leak(bytes.into_boxed_slice());
        match serde_json::from_slice::<Call<M>>(bytes) {
            Ok(d) if d.method() == m && d.oneway() == o && d.more() == mo && d.upgrade() == u => sink.pass(H64::new().s(name).s(&expect.to_string()).get()),
            Ok(d) => sink.fail("envelope:call-round-trip-differs", format!("decoded {d:?} from `{expect}`"), case),
            Err(e) => sink.fail("envelope:call-round-trip-fails", format!("{e} for `{expect}`"), case),
        }
    }
}

/// (A2) decode: every subset/value of flags, an unknown member, every member order.
fn call_decode_cases(sink: &mut Sink<'_>, which: usize) {
    // base members of the five method shapes
    let bases: Vec<(&str, Vec<(String, Value)>)> = vec![
        ("MA::S", vec![("method".into(), json!("a.S")), ("parameters".into(), json!({"n": 5, "s": "str"}))]),
        ("MA::U", vec![("method".into(), json!("a.U"))]),
        ("Capt", vec![("method".into(), json!("a.C")), ("parameters".into(), json!({"k": [1, 2]}))]),
        ("Strict", vec![("method".into(), json!("a.T")), ("parameters".into(), json!({"n": 9}))]),
        ("varlink_service::Method", vec![("method".into(), json!("org.varlink.service.GetInterfaceDescription")), ("parameters".into(), json!({"interface": "org.x"}))]),
    ];
    let (tname, base) = &bases[which];
    for fl in 0..27usize {
        let vals = [fl % 3, fl / 3 % 3, fl / 9];
        // no unknown member, a short one, one with a name of 70 characters (names are copied when they
        // are spelled with an escape: no fixed-size assumption about them may show)
        for unknown_name in [None, Some("x-unknown"), Some("x-unknown-member-with-a-rather-long-name-that-goes-on-and-on-0123456789")] {
            let unknown = unknown_name.is_some();
            let mut members = base.clone();
            for (k, name) in ["oneway", "more", "upgrade"].iter().enumerate() {
                match vals[k] {
                    1 => members.push((name.to_string(), json!(true))),
                    2 => members.push((name.to_string(), json!(false))),
                    _ => {}
                }
            }
            if let Some(n) = unknown_name {
                members.push((n.into(), json!({"deep": [true]})));
            }
            let want = (vals[0] == 1, vals[1] == 1, vals[2] == 1);
            // every member order; and, in source order and reversed, every member's name spelled with
            // a JSON escape (`"\u006fneway"` is the member `oneway`)
            let mut texts: Vec<String> = permutations(members.len()).iter().map(|o| text_in_order(&members, o)).collect();
            let ident: Vec<usize> = (0..members.len()).collect();
            let rev: Vec<usize> = ident.iter().rev().copied().collect();
            for order in [&ident, &rev] {
                for esc in 0..members.len() {
                    texts.push(text_in_order_escaped(&members, order, esc));
                }
            }
            for text in texts {
                let case = json!({"group": "call-decode", "method_type": tname, "frame": text});
                let flags = |c: (bool, bool, bool)| c == want;
                let r: Result<u64, (&str, String)> = match which {
                    0 => match serde_json::from_str::<Call<MA<'_>>>(&text) {
                        Ok(c) if *c.method() == (MA::S { n: 5, s: "str" }) && flags((c.oneway(), c.more(), c.upgrade())) => Ok(1),
                        Ok(c) => Err(("envelope:call-decoded-wrongly", format!("{c:?}"))),
                        Err(e) => Err(("envelope:valid-call-rejected", e.to_string())),
                    },
                    1 => match serde_json::from_str::<Call<MA<'_>>>(&text) {
                        Ok(c) if *c.method() == MA::U && flags((c.oneway(), c.more(), c.upgrade())) => Ok(1),
                        Ok(c) => Err(("envelope:call-decoded-wrongly", format!("{c:?}"))),
                        Err(e) => Err(("envelope:valid-call-rejected", e.to_string())),
                    },
                    2 => match serde_json::from_str::<Call<Capt>>(&text) {
                        Ok(c) => {
                            let mut rest = BTreeMap::new();
                            rest.insert("parameters".to_string(), json!({"k": [1, 2]}));
                            if let Some(n) = unknown_name {
                                rest.insert(n.to_string(), json!({"deep": [true]}));
                            }
                            if c.method().method != "a.C" || !flags((c.oneway(), c.more(), c.upgrade())) {
                                Err(("envelope:call-decoded-wrongly", format!("{c:?}")))
                            } else if c.method().rest.keys().any(|k| ["oneway", "more", "upgrade"].contains(&k.as_str())) {
                                Err(("envelope:flag-shown-to-the-method-type", format!("{:?}", c.method().rest)))
                            } else if c.method().rest != rest {
                                Err(("envelope:member-not-passed-through", format!("method type saw {:?}, expected {rest:?}", c.method().rest)))
                            } else {
                                Ok(2)
                            }
                        }
                        Err(e) => Err(("envelope:valid-call-rejected", e.to_string())),
                    },
                    3 => match (serde_json::from_str::<Call<Strict>>(&text), unknown) {
                        (Ok(c), false) if c.method().parameters.n == 9 && flags((c.oneway(), c.more(), c.upgrade())) => Ok(3),
                        (Ok(c), false) => Err(("envelope:call-decoded-wrongly", format!("{c:?}"))),
                        (Err(e), false) => Err(("envelope:flag-shown-to-the-method-type", format!("a deny_unknown_fields method type rejected the call: {e}"))),
                        (Err(_), true) => Ok(4),
                        (Ok(c), true) => Err(("envelope:member-not-passed-through", format!("the unknown member was hidden from a deny_unknown_fields method type: {c:?}"))),
                    },
                    _ => match serde_json::from_str::<Call<varlink_service::Method<'_>>>(&text) {
                        Ok(c) if matches!(c.method(), varlink_service::Method::GetInterfaceDescription { interface: "org.x" }) && flags((c.oneway(), c.more(), c.upgrade())) => Ok(5),
                        Ok(c) => Err(("envelope:call-decoded-wrongly", format!("{c:?}"))),
                        Err(e) => Err(("envelope:valid-call-rejected", e.to_string())),
                    },
                };
                match r {
                    Ok(k) => {
                        sink.state(H64::new().u(which as u64).u(fl as u64).u(unknown_name.map_or(0, |n| n.len()) as u64).get());
                        sink.pass(H64::new().u(k).s(&text).get())
                    }
                    Err((class, d)) => sink.fail(class, format!("{d}; frame `{text}` as Call<{tname}>"), case),
                }
            }
        }
    }
}

// ---------------------------------------------------------------------------------------------
// error enums

#[derive(Debug, PartialEq, Clone, zlink_core::ReplyError)]
#[zlink(interface = "org.ex.A", crate = "zlink_core")]
enum EA {
    Plain,
    WithFields {
        code: i32,
        msg: String,
    },
    Renamed {
        #[zlink(rename = "wireName")]
        rust_name: u8,
        #[zlink(rename = "other-name")]
        second: bool,
    },
    Opt {
        maybe: Option<u32>,
        list: Vec<String>,
    },
    Another,
    /// every field optional: `parameters` is still one object holding whatever is there
    AllOptional {
        first: Option<u8>,
        #[zlink(rename = "secondOne")]
        second: Option<String>,
    },
}

#[derive(Debug, PartialEq, Clone, zlink_core::ReplyError)]
#[zlink(interface = "b", crate = "zlink_core")]
enum EB<'a> {
    Borrowed { what: &'a str, n: u64 },
    Unit2,
}

/// Variants whose wire name is not their Rust identifier (what the code generator emits for IDL
/// names such as `IOError`), next to variants that differ from them only in spelling.
#[derive(Debug, PartialEq, Clone, zlink_core::ReplyError)]
#[zlink(interface = "org.ex.C", crate = "zlink_core")]
enum EC<'a> {
    #[zlink(rename = "IOError")]
    IoError,
    #[zlink(rename = "DNSFailure")]
    DnsFailure {
        #[zlink(rename = "hostName")]
        host: &'a str,
        tries: u8,
    },
    Xb,
    #[zlink(rename = "XB")]
    Xb2 {
        n: u8,
    },
    #[zlink(rename = "lower_case")]
    LowerCase,
}

/// A name that is NOT the wire name of any variant must not decode as the error type.
fn wrong_name_case<'a, E>(tname: &str, text: &'a str, sink: &mut Sink<'_>)
where
    E: Deserialize<'a> + std::fmt::Debug,
{
    match serde_json::from_str::<E>(text) {
        Err(_) => sink.pass(H64::new().s(tname).s(text).get()),
        Ok(d) => sink.fail("envelope:undeclared-error-name-accepted", format!("`{text}` decoded as {d:?} although {tname} declares no error of that wire name"), json!({"group": "error", "type": tname, "text": text})),
    }
}

/// A success type none of whose (required) fields any error of the corpus carries.
#[derive(Debug, Deserialize)]
#[allow(dead_code)]
struct NothingLikeAnError {
    zz_required_number: u64,
    zz_required_text: String,
}

fn strip_nulls(v: &Value) -> Value {
    match v {
        Value::Object(m) => Value::Object(m.iter().filter(|(_, x)| !x.is_null()).map(|(k, x)| (k.clone(), strip_nulls(x))).collect()),
        x => x.clone(),
    }
}

/// One error value: encode shape (both serializers), decode from every member order (+ unknown
/// member), round trip; for field-less variants also `parameters` null and `{}`.
fn error_case<'a, E>(tname: &str, e: &E, name: &str, params: Option<Value>, sink: &mut Sink<'_>)
where
    E: Serialize + Deserialize<'a> + PartialEq + std::fmt::Debug,
{
    let case = |extra: &str| json!({"group": "error", "type": tname, "value": format!("{e:?}"), "what": extra});
    let mut expect = Map::new();
    expect.insert("error".into(), json!(name));
    if let Some(p) = &params {
        expect.insert("parameters".into(), p.clone());
    }
    let expect = Value::Object(expect);
    // encode: serde_json and zlink's own serializer
    let enc1 = serde_json::to_value(e).map_err(|x| x.to_string());
    let wire = Wire::new(0, None);
    let mut conn = wire.connection();
    let enc2 = complete(conn.send_error(e)).map_err(|x| format!("{x:?}")).and_then(|_| {
        let mut b = wire.written();
        b.pop();
        serde_json::from_slice::<Value>(&b).map_err(|x| x.to_string())
    });
    for (how, enc) in [("serde_json", enc1), ("zlink", enc2)] {
        match enc {
            Ok(v) if strip_nulls(&v) == strip_nulls(&expect) && v.as_object().map_or(false, |o| o.contains_key("parameters") == params.is_some()) => sink.pass(H64::new().s(how).s(&v.to_string()).get()),
            Ok(v) => sink.fail("envelope:error-encoding-differs-from-schema", format!("{how}: encoded `{v}`, schema says `{expect}`"), case("encode")),
            Err(x) => sink.fail("envelope:error-not-encodable", format!("{how}: {x}"), case("encode")),
        }
    }
    // decode
    let mut variants: Vec<(String, Vec<(String, Value)>)> = vec![];
    let mut base: Vec<(String, Value)> = vec![("error".into(), json!(name))];
    if let Some(p) = &params {
        base.push(("parameters".into(), p.clone()));
    }
    variants.push(("as encoded".into(), base.clone()));
    let mut with_unknown = base.clone();
    with_unknown.push(("zz".into(), json!(1)));
    variants.push(("with an unknown member".into(), with_unknown));
    if params.is_none() {
        let mut a = base.clone();
        a.push(("parameters".into(), Value::Null));
        variants.push(("field-less variant, parameters null".into(), a));
        let mut b = base.clone();
        b.push(("parameters".into(), json!({})));
        variants.push(("field-less variant, parameters {}".into(), b));
    }
    for (what, members) in variants {
        let mut texts: Vec<String> = permutations(members.len()).iter().map(|o| text_in_order(&members, o)).collect();
        let ident: Vec<usize> = (0..members.len()).collect();
        for esc in 0..members.len() {
            texts.push(text_in_order_escaped(&members, &ident, esc));
        }
        for text in texts {
            let text: &'a str = Box::leak(text.into_boxed_str());
            // the same frame received over a connection by a caller whose success type has nothing in
            // common with the error's parameters (and by one that expects no parameters): whatever
            // order the members come in, it is the method's error
            for strict in [true, false] {
                let wire = Wire::new(0, None);
                wire.arrive(text.as_bytes());
                wire.arrive(&[0]);
                let conn: &'a mut zlink_core::Connection<simnet::ScriptSocket> = Box::leak(Box::new(wire.connection()));
                let got = if strict {
                    simnet::complete_or_stall(conn.receive_reply::<NothingLikeAnError, E>()).map(|r| r.map(|r| r.map(|_| ())))
                } else {
                    simnet::complete_or_stall(conn.receive_reply::<(), E>()).map(|r| r.map(|r| r.map(|_| ())))
                };
                match got {
                    Some(Ok(Err(d))) if d == *e => sink.pass(H64::new().s(tname).s(text).u(strict as u64).get()),
                    // the standard service errors come back as the connection-level error
                    Some(Err(zlink_core::Error::VarlinkService(d))) if tname.starts_with("varlink_service") && format!("{d:?}") == format!("{e:?}") => sink.pass(H64::new().s(tname).s(text).u(2 + strict as u64).get()),
                    other => sink.fail(
                        "envelope:valid-error-not-received-as-the-methods-error",
                        format!("`{text}` received with receive_reply::<{}, {tname}> came back as {other:?}, expected Ok(Err({e:?}))", if strict { "a success type with other required fields" } else { "()" }),
                        case(&what),
                    ),
                }
            }
            match serde_json::from_str::<E>(text) {
                Ok(d) if d == *e => sink.pass(H64::new().s(tname).s(text).get()),
                Ok(d) => sink.fail("envelope:error-decoded-wrongly", format!("`{text}` decoded as {d:?}, expected {e:?}"), case(&what)),
                Err(x) => {
                    let class = if what.contains("{}") {
                        "envelope:fieldless-error-with-empty-parameters-rejected"
                    } else if what.contains("null") {
                        "envelope:fieldless-error-with-null-parameters-rejected"
                    } else {
                        "envelope:valid-error-rejected"
                    };
                    sink.fail(class, format!("`{text}` as {tname}: {x}"), case(&what))
                }
            }
        }
    }
}

fn all_error_cases(sink: &mut Sink<'_>) {
    let t = "EA";
    error_case(t, &EA::Plain, "org.ex.A.Plain", None, sink);
    error_case(t, &EA::Another, "org.ex.A.Another", None, sink);
    for (code, msg) in [(0, ""), (-7, "m\"q"), (i32::MAX, "long message with \u{e9}"), (1, "ctl \u{1f}\u{1}\u{7f}\u{0} end")] {
        error_case(t, &EA::WithFields { code, msg: msg.into() }, "org.ex.A.WithFields", Some(json!({"code": code, "msg": msg})), sink);
    }
    for (a, b) in [(0u8, false), (255, true)] {
        error_case(t, &EA::Renamed { rust_name: a, second: b }, "org.ex.A.Renamed", Some(json!({"wireName": a, "other-name": b})), sink);
    }
    error_case(t, &EA::Opt { maybe: Some(3), list: vec!["x".into()] }, "org.ex.A.Opt", Some(json!({"maybe": 3, "list": ["x"]})), sink);
    error_case(t, &EA::Opt { maybe: None, list: vec![] }, "org.ex.A.Opt", Some(json!({"maybe": null, "list": []})), sink);
    let t = "EB<'_>";
    error_case(t, &EB::Unit2, "b.Unit2", None, sink);
    error_case(t, &EB::Borrowed { what: "thing", n: u64::MAX }, "b.Borrowed", Some(json!({"what": "thing", "n": u64::MAX})), sink);
    for (a, b) in [(Some(3u8), Some("s")), (Some(0), None), (None, Some("only")), (None, None)] {
        error_case("EA", &EA::AllOptional { first: a, second: b.map(|x| x.to_string()) }, "org.ex.A.AllOptional", Some(json!({"first": a, "secondOne": b})), sink);
    }
    let t = "EC<'_>";
    error_case(t, &EC::IoError, "org.ex.C.IOError", None, sink);
    error_case(t, &EC::LowerCase, "org.ex.C.lower_case", None, sink);
    error_case(t, &EC::Xb, "org.ex.C.Xb", None, sink);
    error_case(t, &EC::Xb2 { n: 9 }, "org.ex.C.XB", Some(json!({"n": 9})), sink);
    error_case(t, &EC::DnsFailure { host: "h.example", tries: 3 }, "org.ex.C.DNSFailure", Some(json!({"hostName": "h.example", "tries": 3})), sink);
    for text in [
        r#"{"error":"org.ex.C.IoError"}"#,
        r#"{"error":"org.ex.C.DnsFailure","parameters":{"hostName":"h","tries":1}}"#,
        r#"{"error":"org.ex.C.Xb2","parameters":{"n":1}}"#,
        r#"{"error":"org.ex.C.LowerCase"}"#,
        r#"{"error":"org.ex.C.DNSFailure","parameters":{"host":"h","tries":1}}"#,
        r#"{"error":"org.ex.D.IOError"}"#,
        r#"{"error":"IOError"}"#,
    ] {
        wrong_name_case::<EC<'_>>(t, text, sink);
    }
    for text in [r#"{"error":"org.ex.A.plain"}"#, r#"{"error":"org.ex.B.Plain"}"#, r#"{"error":"org.ex.A.Renamed","parameters":{"rust_name":1,"second":true}}"#, r#"{"parameters":{"code":1,"msg":"m"}}"#] {
        wrong_name_case::<EA>("EA", text, sink);
    }
    // the library's own errors
    use varlink_service::Error as SE;
    let t = "varlink_service::Error";
    error_case(t, &SE::PermissionDenied, "org.varlink.service.PermissionDenied", None, sink);
    error_case(t, &SE::ExpectedMore, "org.varlink.service.ExpectedMore", None, sink);
    error_case(t, &SE::InterfaceNotFound { interface: "i.f".into() }, "org.varlink.service.InterfaceNotFound", Some(json!({"interface": "i.f"})), sink);
    error_case(t, &SE::MethodNotFound { method: "M".into() }, "org.varlink.service.MethodNotFound", Some(json!({"method": "M"})), sink);
    error_case(t, &SE::MethodNotImplemented { method: "M".into() }, "org.varlink.service.MethodNotImplemented", Some(json!({"method": "M"})), sink);
    error_case(t, &SE::InvalidParameter { parameter: "p".into() }, "org.varlink.service.InvalidParameter", Some(json!({"parameter": "p"})), sink);
}

// ---------------------------------------------------------------------------------------------
// replies

#[derive(Debug, Serialize, Deserialize, PartialEq, Clone)]
struct RP {
    id: u32,
    name: String,
}

/// Parameter types without any data of their own: they still have an encoding, and `Some(value)`
/// is a present parameter.
#[derive(Debug, Serialize, Deserialize, PartialEq, Clone)]
struct Ack {}
#[derive(Debug, Serialize, Deserialize, PartialEq, Clone)]
enum OnlyDone {
    Done,
}
#[derive(Debug, Serialize, Deserialize, PartialEq, Clone)]
struct Marker(std::marker::PhantomData<u64>, [u8; 0]);

fn reply_cases(sink: &mut Sink<'_>) {
    reply_cases_for("RP", RP { id: 4, name: "n".into() }, json!({"id": 4, "name": "n"}), sink);
    reply_cases_for("Ack{} (zero-sized)", Ack {}, json!({}), sink);
    reply_cases_for("OnlyDone (zero-sized)", OnlyDone::Done, json!("Done"), sink);
    reply_cases_for("Marker (zero-sized)", Marker(std::marker::PhantomData, []), json!([null, []]), sink);
    reply_cases_for("Vec<u8> (empty)", Vec::<u8>::new(), json!([]), sink);
    reply_cases_for("String (empty)", String::new(), json!(""), sink);
    reply_cases_for("String (control characters)", "a\u{1f}b\u{1}\u{7f}\u{0}".to_string(), json!("a\u{1f}b\u{1}\u{7f}\u{0}"), sink);
    reply_cases_for("u64 (0)", 0u64, json!(0), sink);
    reply_cases_for("bool (false)", false, json!(false), sink);
}

fn reply_cases_for<T>(tname: &str, value: T, value_json: Value, sink: &mut Sink<'_>)
where
    T: Serialize + for<'de> Deserialize<'de> + PartialEq + Clone + std::fmt::Debug,
{
    for with_params in [false, true] {
        for cont in [None, Some(true), Some(false)] {
            let r = Reply::new(with_params.then(|| value.clone())).set_continues(cont);
            let case = json!({"group": "reply", "parameter_type": tname, "parameters": with_params, "continues": cont});
            let mut expect = Map::new();
            if with_params {
                expect.insert("parameters".into(), value_json.clone());
            }
            if let Some(c) = cont {
                expect.insert("continues".into(), json!(c));
            }
            let expect = Value::Object(expect);
            let wire = Wire::new(0, None);
            let mut conn = wire.connection();
            let enc = complete(conn.send_reply(&r)).map_err(|x| format!("{x:?}")).and_then(|_| {
                let mut b = wire.written();
                b.pop();
                serde_json::from_slice::<Value>(&b).map_err(|x| x.to_string())
            });
            for (how, e) in [("zlink", enc), ("serde_json", serde_json::to_value(&r).map_err(|x| x.to_string()))] {
                match e {
                    Ok(v) if v == expect => sink.pass(H64::new().s(how).s(&v.to_string()).get()),
                    Ok(v) => sink.fail("envelope:reply-encoding-differs-from-schema", format!("{how}: `{v}`, schema says `{expect}`"), case.clone()),
                    Err(x) => sink.fail("envelope:reply-not-encodable", format!("{how}: {x}"), case.clone()),
                }
            }
            let members: Vec<(String, Value)> = expect.as_object().unwrap().iter().map(|(k, v)| (k.clone(), v.clone())).chain(std::iter::once(("other".to_string(), json!("ignored")))).collect();
            for n in [members.len() - 1, members.len()] {
                let mut texts: Vec<String> = permutations(n).iter().map(|o| text_in_order(&members[..n], o)).collect();
                let ident: Vec<usize> = (0..n).collect();
                for esc in 0..n {
                    texts.push(text_in_order_escaped(&members[..n], &ident, esc));
                }
                for text in texts {
                    match serde_json::from_str::<Reply<T>>(&text) {
                        Ok(d) if d.parameters() == r.parameters() && d.continues() == cont => sink.pass(H64::new().s(&text).get()),
                        Ok(d) => sink.fail("envelope:reply-decoded-wrongly", format!("`{text}` decoded as {d:?}"), case.clone()),
                        Err(x) => sink.fail("envelope:valid-reply-rejected", format!("`{text}`: {x}"), case.clone()),
                    }
                }
            }
        }
    }
}

// ---------------------------------------------------------------------------------------------
// "no parameters" spelled absent / null / {}

#[zlink_core::proxy(interface = "org.ex.P", crate = "zlink_core")]
trait UnitProxy {
    async fn ping(&mut self) -> zlink_core::Result<Result<(), EA>>;
    async fn ping_with_arg(&mut self, n: u32) -> zlink_core::Result<Result<(), EA>>;
    #[zlink(more)]
    async fn watch(&mut self) -> zlink_core::Result<impl futures_util::Stream<Item = zlink_core::Result<Result<(), EA>>>>;
}

fn no_parameters_cases(sink: &mut Sink<'_>) {
    let spellings: [(&str, Option<Value>); 3] = [("absent", None), ("null", Some(Value::Null)), ("{}", Some(json!({})))];
    for (sp, p) in &spellings {
        for cont in [None, Some(false)] {
            // a proxy method without outputs
            let mut m: Vec<(String, Value)> = vec![];
            if let Some(p) = p {
                m.push(("parameters".into(), p.clone()));
            }
            if let Some(c) = cont {
                m.push(("continues".into(), json!(c)));
            }
            for order in permutations(m.len()) {
                let text = text_in_order(&m, &order);
                for which in 0..2 {
                    let case = json!({"group": "no-parameters", "site": "proxy method without outputs", "reply": text, "spelling": sp});
                    let wire = Wire::new(0, None);
                    let mut b = text.clone().into_bytes();
                    b.push(0);
                    wire.arrive(&b);
                    let mut conn = wire.connection();
                    let r = if which == 0 { complete_or_stall(conn.ping()) } else { complete_or_stall(conn.ping_with_arg(3)) };
                    match r {
                        Some(Ok(Ok(()))) => sink.pass(H64::new().s("proxy").s(&text).get()),
                        other => sink.fail(format!("envelope:unit-output-proxy-rejects-parameters-{sp}"), format!("reply `{text}` to a proxy method without outputs gave {other:?}"), case),
                    }
                }
            }
        }
        // a streaming proxy method without outputs: two continuing items and the final one, all in
        // this spelling
        {
            let item = |c: bool| {
                let mut m: Vec<(String, Value)> = vec![];
                if let Some(p) = p {
                    m.push(("parameters".into(), p.clone()));
                }
                m.push(("continues".into(), json!(c)));
                let ident: Vec<usize> = (0..m.len()).collect();
                text_in_order(&m, &ident)
            };
            let frames = [item(true), item(true), item(false)];
            let case = json!({"group": "no-parameters", "site": "streaming proxy method without outputs", "replies": frames, "spelling": sp});
            let wire = Wire::new(0, None);
            for f in &frames {
                wire.arrive(f.as_bytes());
                wire.arrive(&[0]);
            }
            let mut conn = wire.connection();
            match complete_or_stall(conn.watch()) {
                Some(Ok(st)) => {
                    let mut st = std::pin::pin!(st);
                    let mut got = Vec::new();
                    for _ in 0..4 {
                        match complete_or_stall(futures_util::StreamExt::next(&mut st)) {
                            Some(Some(Ok(Ok(())))) => got.push("item"),
                            Some(None) => {
                                got.push("end");
                                break;
                            }
                            Some(Some(_)) => {
                                got.push("error");
                                break;
                            }
                            None => {
                                got.push("stall");
                                break;
                            }
                        }
                    }
                    if got == ["item", "item", "item", "end"] {
                        sink.pass(H64::new().s("proxy-stream").s(sp).get())
                    } else {
                        sink.fail(format!("envelope:unit-output-proxy-rejects-parameters-{sp}"), format!("three replies without parameters (spelled {sp}) to a streaming proxy method without outputs gave {got:?}"), case)
                    }
                }
                other => sink.fail("envelope:streaming-proxy-method-failed", format!("{:?}", other.map(|r| r.map(|_| ()))), case),
            };
        }
        // the library's GetInfo method
        let mut m: Vec<(String, Value)> = vec![("method".into(), json!("org.varlink.service.GetInfo"))];
        if let Some(p) = p {
            m.push(("parameters".into(), p.clone()));
        }
        for order in permutations(m.len()) {
            let text = text_in_order(&m, &order);
            let case = json!({"group": "no-parameters", "site": "varlink_service::Method::GetInfo", "call": text, "spelling": sp});
            let wire = Wire::new(0, None);
            let mut b = text.clone().into_bytes();
            b.push(0);
            wire.arrive(&b);
            let mut conn = wire.connection();
            match complete_or_stall(conn.receive_call::<varlink_service::Method<'_>>()) {
                Some(Ok(c)) if matches!(c.method(), varlink_service::Method::GetInfo) => sink.pass(H64::new().s("getinfo").s(&text).get()),
                other => sink.fail(format!("envelope:standard-method-rejects-parameters-{sp}"), format!("call `{text}` gave {other:?}"), case),
            }
        }
    }
}

fn group(i: u64, sink: &mut Sink<'_>) {
    match i {
        0 => {
            call_encode_case("MA", &MA::U, sink);
            call_encode_case("MA", &MA::S { n: 0, s: "" }, sink);
            call_encode_case("MA", &MA::S { n: u32::MAX, s: "borrowed \u{e9}" }, sink);
            call_encode_case("MA", &MA::O { v: vec![1, 2], name: "owned".into() }, sink);
            call_encode_case("Strict", &Strict { method: "a.T".into(), parameters: StrictParams { n: 1 } }, sink);
            let mut rest = BTreeMap::new();
            rest.insert("parameters".to_string(), json!({"k": 1}));
            call_encode_case("Capt", &Capt { method: "a.C".into(), rest }, sink);
            // the library's method type has no PartialEq: compare through Debug
            for f in 0..8 {
                let (o, mo, u) = flags_of(f);
                for m in [varlink_service::Method::GetInfo, varlink_service::Method::GetInterfaceDescription { interface: "org.x" }] {
                    let own = serde_json::to_value(&m).unwrap();
                    let dbg = format!("{m:?}");
                    let c = Call::new(m).set_oneway(o).set_more(mo).set_upgrade(u);
                    let case = json!({"group": "call-encode", "method_type": "varlink_service::Method", "method": own, "flags": [o, mo, u]});
                    let mut expect = own.as_object().cloned().unwrap();
                    for (k, on) in [("oneway", o), ("more", mo), ("upgrade", u)] {
                        if on {
                            expect.insert(k.into(), json!(true));
                        }
                    }
                    match wire_encode(&c) {
                        Ok((bytes, got)) if got == Value::Object(expect.clone()) => match serde_json::from_slice::<Call<varlink_service::Method<'_>>>(&bytes) {
                            Ok(d) if format!("{:?}", d.method()) == dbg && (d.oneway(), d.more(), d.upgrade()) == (o, mo, u) => sink.pass(H64::new().s(&got.to_string()).get()),
                            other => sink.fail("envelope:call-round-trip-differs", format!("{other:?}"), case),
                        },
                        Ok((_, got)) => sink.fail("envelope:call-encoding-differs-from-schema", format!("encoded `{got}`"), case),
                        Err(e) => sink.fail("envelope:call-not-encodable", e, case),
                    }
                }
            }
        }
        1..=5 => call_decode_cases(sink, i as usize - 1),
        6 => all_error_cases(sink),
        7 => reply_cases(sink),
        _ => no_parameters_cases(sink),
    }
    sink.goal(match i {
        0 => "call-encode",
        1..=5 => "call-decode-permutations",
        6 => "error-enums",
        7 => "replies",
        _ => "no-parameters-spellings",
    });
}

pub fn run(tier: Tier) -> i32 {
    let mut rep = Report::new("C05", tier.name());
    rep.rule = "complete products: (call-encode) 6 method values of 4 method types + the library's method type x 8 flag sets, through zlink's serializer and serde_json, then decoded back; (call-decode) 5 method shapes x 27 flag assignments {absent,true,false}^3 x unknown member {absent,present} x every permutation of the members present; (errors) 17 values of 3 error types (derived, derived with lifetime and renamed fields, the library's) x {as encoded, with unknown member, parameters null, parameters {}} x every member order, encode through both serializers; (replies) parameters/continues present or absent x orders; (no-parameters) {absent,null,{}} x continues x orders for a proxy method without outputs and for GetInfo. Distinct = distinct (site, frame)".into();
    rep.assumptions = vec!["expected JSON is built structurally from the value; a field that is None may be encoded as null or left out".into()];
    for g in ["call-encode", "call-decode-permutations", "error-enums", "replies", "no-parameters-spellings"] {
        rep.require_goal(g);
    }
    let cfg = Config { max_wall: std::time::Duration::from_secs(tier.pick(60, 600)), ..Default::default() };
    rep.add(sweep("groups", 9, &cfg, group));
    rep.finish()
}

pub fn replay(v: &Value) -> Replayed {
    // a case is identified by its group; the whole (small) group is re-run and the class looked up
    let g = match v["case"]["group"].as_str() {
        Some("call-encode") => vec![0],
        Some("call-decode") => (1..=5).collect(),
        Some("error") => vec![6],
        Some("reply") => vec![7],
        _ => vec![8],
    };
    let class = v["class"].as_str().unwrap_or("");
    for i in g {
        let st = xplore::sweep_one("replay", i, &Config { threads: 1, ..Default::default() }, group);
        if let Some((c, rec)) = st.violations.into_iter().find(|(c, _)| c == class) {
            return Replayed::Fail { trace: vec![format!("case {}", v["case"])], class: c, detail: rec.detail };
        }
    }
    Replayed::Pass(vec![format!("group of case {} re-run: class `{class}` does not occur any more", v["case"])])
}
