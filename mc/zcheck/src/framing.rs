//! C01 (inbound framing vs. fragmentation) and C07 (cancel safety of receive).
//!
//! Seam: `Connection::receive_call::<M>` / `receive_reply::<P, E>` over a `simnet` stream wire.
//! Oracle: split the sent bytes at NUL; frame i must produce result i, which is the decoded value
//! when `serde_json::from_slice` of exactly that frame succeeds and *some* error otherwise; after
//! the last frame the peer has closed and the next receive must report end-of-stream.

use crate::common::{replay_dfs, Replayed, Tier};
use serde::Deserialize;
use serde_json::{json, Value};
use simnet::{show, PendPolicy, ReadPolicy, ScriptSocket, Task, Wire};
use std::task::Poll;
use xplore::report::Report;
use xplore::{explore, Config, Ctx, Harness, Verdict, H64};
use zlink_core::{varlink_service, Call, Connection, Reply};

type Conn = Connection<ScriptSocket>;

#[derive(Debug, Deserialize)]
struct Opt {
    #[serde(default)]
    #[allow(dead_code)]
    a: Option<u8>,
}

#[derive(Debug, Deserialize)]
#[serde(tag = "method", content = "parameters")]
enum Meth<'a> {
    #[serde(rename = "a.P")]
    P {
        #[serde(borrow)]
        #[allow(dead_code)]
        s: &'a str,
    },
    #[serde(rename = "a.U")]
    U,
}

#[derive(Debug, zlink_core::ReplyError)]
#[zlink(interface = "a", crate = "zlink_core")]
enum Err1 {
    E,
    #[allow(dead_code)]
    F { n: u8 },
}

#[derive(Clone, Debug)]
struct Frame {
    bytes: Vec<u8>,
    /// "err" for frames that must yield an error
    expect: String,
}

/// Drive one receive future to completion; with `cancel`, every `Pending` is followed by a choice
/// between re-polling the same future and dropping it and creating a new one.
macro_rules! drive {
    ($cx:expr, $cancel:expr, $mk:expr, $render:expr) => {{
        let mut task = Task::new();
        let mut guard = 0usize;
        'outer: loop {
            let mut fut = std::pin::pin!($mk);
            loop {
                match task.poll(fut.as_mut()) {
                    Poll::Ready(r) => break 'outer $render(r),
                    Poll::Pending => {
                        guard += 1;
                        if !task.woken() || guard > 10_000 {
                            break 'outer "STALL".to_string();
                        }
                        if $cancel && $cx.choose(2, "pending:repoll|cancel") == 1 {
                            $cx.goal("receive-cancelled");
                            $cx.log(|| "  receive future dropped, new one created".to_string());
                            continue 'outer;
                        }
                    }
                }
            }
        }
    }};
}

fn render_call<M: std::fmt::Debug>(r: zlink_core::Result<Call<M>>) -> String {
    match r {
        Ok(c) => format!("ok {c:?}"),
        Err(zlink_core::Error::UnexpectedEof) => "eof".into(),
        Err(_) => "err".into(),
    }
}
fn render_reply<P: std::fmt::Debug, E: std::fmt::Debug>(r: zlink_core::Result<zlink_core::reply::Result<P, E>>) -> String {
    match r {
        Ok(Ok(r)) => format!("reply {r:?}"),
        Ok(Err(e)) => format!("merr {e:?}"),
        Err(zlink_core::Error::VarlinkService(e)) => format!("svcerr {e:?}"),
        Err(zlink_core::Error::UnexpectedEof) => "eof".into(),
        Err(_) => "err".into(),
    }
}

fn recv_call_opt(c: &mut Conn, cx: &Ctx, cancel: bool) -> String {
    drive!(cx, cancel, c.receive_call::<Opt>(), render_call)
}
fn recv_call_value(c: &mut Conn, cx: &Ctx, cancel: bool) -> String {
    drive!(cx, cancel, c.receive_call::<Value>(), render_call)
}
fn recv_call_meth(c: &mut Conn, cx: &Ctx, cancel: bool) -> String {
    drive!(cx, cancel, c.receive_call::<Meth<'_>>(), render_call)
}
fn recv_reply_unit(c: &mut Conn, cx: &Ctx, cancel: bool) -> String {
    drive!(cx, cancel, c.receive_reply::<(), Err1>(), render_reply)
}
fn recv_reply_opt(c: &mut Conn, cx: &Ctx, cancel: bool) -> String {
    drive!(cx, cancel, c.receive_reply::<Opt, Err1>(), render_reply)
}
fn recv_reply_value(c: &mut Conn, cx: &Ctx, cancel: bool) -> String {
    drive!(cx, cancel, c.receive_reply::<Value, Err1>(), render_reply)
}

fn oracle_call<'a, M: Deserialize<'a> + std::fmt::Debug>(b: &'a [u8]) -> String {
    match serde_json::from_slice::<Call<M>>(b) {
        Ok(c) => format!("ok {c:?}"),
        Err(_) => "err".into(),
    }
}

#[derive(Clone, Copy)]
enum RK {
    Success,
    MethodErr,
    SvcErr,
    Bad,
}
fn oracle_reply<'a, P: Deserialize<'a> + std::fmt::Debug>(b: &'a [u8], k: RK) -> String {
    match k {
        RK::Success => format!("reply {:?}", serde_json::from_slice::<Reply<P>>(b).unwrap_or_else(|e| xplore::bug!("reply alphabet entry does not decode: {e}"))),
        RK::MethodErr => format!("merr {:?}", serde_json::from_slice::<Err1>(b).unwrap_or_else(|e| xplore::bug!("error alphabet entry does not decode: {e}"))),
        RK::SvcErr => format!(
            "svcerr {:?}",
            serde_json::from_slice::<varlink_service::Error>(b).unwrap_or_else(|e| xplore::bug!("svc error alphabet entry does not decode: {e}"))
        ),
        RK::Bad => "err".into(),
    }
}

struct Target {
    name: &'static str,
    sigma: Vec<Frame>,
    recv: fn(&mut Conn, &Ctx, bool) -> String,
    /// a frame of exactly `size` bytes (before the NUL); `valid` selects a decodable one
    sized: fn(usize, bool, u8) -> Frame,
}

const CALL_SIGMA: &[&[u8]] = &[b"{}", b"{\"a\":1}", b"[]", b"1", b"{\"a\":\"x\"}", b"{", b"x", b"{\"a\"", b"}{", b" {}", b"{} ", b"\n{}\t", b" ", b"{}x", "{\"\u{e9}\":2}".as_bytes(), b"{\"\xff\":2}", b"{\"b\":\"\\u0000\"}", "{\"\u{e9}\u{e9}\":\"\u{fc}\"}".as_bytes(), b""];

/// `n` bytes of string content: letters, with a two-byte character (U+00E9) every few bytes so that
/// every stretch of eight bytes holds bytes above 0x7f.
fn filler(n: usize, salt: u8) -> String {
    let mut s = String::with_capacity(n);
    let mut i = 0usize;
    while s.len() < n {
        if i % 5 == 3 && s.len() + 2 <= n {
            s.push('\u{e9}');
        } else {
            s.push((b'a' + ((i as u8).wrapping_add(salt) % 26)) as char);
        }
        i += 1;
    }
    s
}

/// `n` bytes of garbage for malformed frames: anything but NUL, including control bytes, 0x7f, and
/// bytes that are not UTF-8.
fn garbage(n: usize, salt: u8) -> Vec<u8> {
    const ODD: [u8; 8] = [0x01, 0x7f, 0x80, 0xff, 0x1f, 0xc3, 0xfe, 0x81];
    (0..n).map(|i| if i % 3 == 1 { ODD[(i / 3 + salt as usize) % ODD.len()] } else { b'a' + ((i as u8).wrapping_add(salt) % 26) }).collect()
}

fn sized_call<M: for<'a> Deserialize<'a> + std::fmt::Debug>(size: usize, valid: bool, salt: u8) -> Frame {
    let s: Vec<u8> = if !valid || size < 2 {
        if size == 1 {
            b"1".to_vec()
        } else {
            malformed(size, salt)
        }
    } else if size < 8 {
        format!("{{{}}}", " ".repeat(size - 2)).into_bytes()
    } else {
        format!("{{\"x\":\"{}\"}}", filler(size - 8, salt)).into_bytes()
    };
    assert_eq!(s.len(), size);
    let expect = oracle_call::<M>(&s);
    if valid && size >= 2 && expect == "err" {
        xplore::bug!("sized valid frame does not decode");
    }
    Frame { bytes: s, expect }
}
/// `{` followed by garbage.  Salts from 100 on ask for frames that are valid UTF-8 but made of
/// three-byte characters almost throughout (at alignment `salt % 3`, so that for any byte offset
/// some alignment puts a character across it): 100..=102 unbalanced JSON, 103..=105 a JSON array
/// holding one long string (well-formed, but neither a call nor a reply).
fn malformed(size: usize, salt: u8) -> Vec<u8> {
    if salt >= 100 && size >= 12 {
        let a = (salt % 3) as usize;
        let (head, tail): (&str, &str) = if salt >= 103 { ("[\"", "\"]") } else { ("{", "") };
        let mut s = String::from(head);
        s.push_str(&"x".repeat(a));
        while s.len() + 3 + tail.len() <= size {
            s.push('\u{20ac}');
        }
        while s.len() + tail.len() < size {
            s.push('y');
        }
        s.push_str(tail);
        return s.into_bytes();
    }
    let mut v = vec![b'{'];
    v.extend(garbage(size - 1, salt));
    v
}
fn sized_call_meth(size: usize, valid: bool, salt: u8) -> Frame {
    // {"method":"a.P","parameters":{"s":""}} is 38 bytes
    let s: Vec<u8> = if valid && size >= 38 {
        format!("{{\"method\":\"a.P\",\"parameters\":{{\"s\":\"{}\"}}}}", filler(size - 38, salt)).into_bytes()
    } else if size == 1 {
        b"1".to_vec()
    } else {
        malformed(size, salt)
    };
    assert_eq!(s.len(), size);
    // (the oracle borrows from the frame: distinct frames are few, each is leaked once per thread -
    // leaking one per execution took the thorough tier of C07 to 64 GB)
    thread_local! {
        static FRAMES: std::cell::RefCell<std::collections::HashMap<Vec<u8>, &'static [u8]>> = std::cell::RefCell::new(std::collections::HashMap::new());
    }
    let s: &'static [u8] = FRAMES.with(|m| *m.borrow_mut().entry(s.clone()).or_insert_with(|| Box::leak(s.into_boxed_slice())));
    let expect = oracle_call::<Meth<'_>>(s);
    Frame { bytes: s.to_vec(), expect }
}
fn sized_reply<P: for<'a> Deserialize<'a> + std::fmt::Debug>(size: usize, valid: bool, salt: u8) -> Frame {
    // {"continues":true,"x":""} is 25 bytes: an unknown member carries the padding so that the
    // frame is a success for every parameter type
    let (s, k): (Vec<u8>, RK) = if valid && size >= 25 {
        (format!("{{\"continues\":true,\"x\":\"{}\"}}", filler(size - 25, salt)).into_bytes(), RK::Success)
    } else if valid && (2..8).contains(&size) {
        (format!("{{{}}}", " ".repeat(size - 2)).into_bytes(), RK::Success)
    } else if size == 1 {
        (b"1".to_vec(), RK::Bad)
    } else {
        (malformed(size, salt), RK::Bad)
    };
    assert_eq!(s.len(), size);
    let expect = oracle_reply::<P>(&s, k);
    Frame { bytes: s, expect }
}

fn targets() -> Vec<Target> {
    // (the last symbol is the empty frame - a bare NUL: the statement speaks of non-empty frames only,
    // so skipping it or answering it with an error both pass, but what surrounds it must be unaffected)
    let call_sigma = |f: fn(&[u8]) -> String| -> Vec<Frame> { CALL_SIGMA.iter().map(|s| Frame { bytes: s.to_vec(), expect: if s.is_empty() { "empty".into() } else { f(s) } }).collect() };
    let meth_sigma: Vec<Frame> = [
        "{\"method\":\"a.U\"}",
        "{\"method\":\"a.P\",\"parameters\":{\"s\":\"q\"}}",
        "{\"method\":\"a.X\"}",
        "{\"method\":\"a.P\"}",
        "{",
        " {\"method\":\"a.U\"} ",
        "{\"method\":\"a.U\"}x",
        "\t",
    ]
    .iter()
    .map(|s| Frame { bytes: s.as_bytes().to_vec(), expect: oracle_call::<Meth<'_>>(s.as_bytes()) })
    .collect();
    let reply_sigma = |f: fn(&[u8], RK) -> String| -> Vec<Frame> {
        [
            ("{}", RK::Success),
            ("{\"parameters\":null}", RK::Success),
            ("{\"continues\":true}", RK::Success),
            ("{\"error\":\"a.E\"}", RK::MethodErr),
            ("{\"error\":\"a.F\",\"parameters\":{\"n\":7}}", RK::MethodErr),
            ("{\"error\":\"org.varlink.service.PermissionDenied\"}", RK::SvcErr),
            ("[]", RK::Bad),
            ("1", RK::Bad),
            ("{\"continues\":3}", RK::Bad),
            ("{", RK::Bad),
            ("x", RK::Bad),
            (" {}", RK::Success),
            ("{}\n", RK::Success),
            (" ", RK::Bad),
            ("{}x", RK::Bad),
        ]
        .iter()
        .map(|(s, k)| Frame { bytes: s.as_bytes().to_vec(), expect: f(s.as_bytes(), *k) })
        .collect()
    };
    vec![
        Target { name: "receive_call<Opt>", sigma: call_sigma(|b| oracle_call::<Opt>(b)), recv: recv_call_opt, sized: sized_call::<Opt> },
        Target { name: "receive_call<Value>", sigma: call_sigma(|b| oracle_call::<Value>(b)), recv: recv_call_value, sized: sized_call::<Value> },
        Target { name: "receive_call<Meth<'_>>", sigma: meth_sigma, recv: recv_call_meth, sized: sized_call_meth },
        Target { name: "receive_reply<(),Err1>", sigma: reply_sigma(|b, k| oracle_reply::<()>(b, k)), recv: recv_reply_unit, sized: sized_reply::<()> },
        Target { name: "receive_reply<Opt,Err1>", sigma: reply_sigma(|b, k| oracle_reply::<Opt>(b, k)), recv: recv_reply_opt, sized: sized_reply::<Opt> },
        Target { name: "receive_reply<Value,Err1>", sigma: reply_sigma(|b, k| oracle_reply::<Value>(b, k)), recv: recv_reply_value, sized: sized_reply::<Value> },
    ]
}

#[derive(Clone, Debug, PartialEq)]
enum Mode {
    /// frame sequences in sigma^1..=max_frames; every partition when the stream has <= all_upto
    /// bytes, otherwise deviation-bounded cuts
    Small { max_frames: usize, all_upto: usize },
    /// one big frame from the growth-boundary size set, alone / after a tiny frame / before one
    Growth { near_only: bool },
    /// 2..=40 tiny frames arriving together
    Burst,
    /// 2..=3 frames of 100..300 bytes each (the buffer grows while earlier frames are still in it);
    /// reads may end early next to a growth step or a frame boundary
    Medium,
    /// one frame of 4 KiB .. 300 KB (thorough: 1 MiB): one below, at, one above powers of two,
    /// alone / after a tiny frame / before one; a read may end early next to a power of two
    Large { upto: usize },
}

const LARGE_SIZES: &[usize] = &[4095, 4096, 4097, 8191, 8192, 8193, 16383, 16384, 16385, 32767, 32768, 32769, 65535, 65536, 65537, 131071, 131072, 131073, 300_000, 1_048_575, 1_048_576, 1_048_577];

const MEDIUM_SIZES: &[usize] = &[100, 155, 156, 200, 255, 256, 300];

const GROWTH_SIZES: &[usize] = &[
    1, 2, 3, 4, 5, 6, 7, 8, 9, 10, 11, 12, 13, 14, 15, 16, 17, 18, 19, 20, 250, 251, 252, 253, 254, 255, 256, 257, 258, 259, 260, 261, 262, 506, 507, 508, 509, 510, 511, 512, 513, 514,
    515, 516, 517, 518, 762, 763, 764, 765, 766, 767, 768, 769, 770, 771, 772, 773, 774,
];

fn near_step(pos: usize) -> bool {
    let r = pos % 256;
    r <= 3 || r >= 253
}

struct Framing {
    targets: Vec<Target>,
    target: usize,
    mode: Mode,
    cancel: bool,
}

impl Framing {
    fn new(target: usize, mode: Mode, cancel: bool) -> Framing {
        Framing { targets: targets(), target, mode, cancel }
    }
    fn config(&self) -> Value {
        let mode = match &self.mode {
            Mode::Small { max_frames, all_upto } => json!({"small": {"max_frames": max_frames, "all_upto": all_upto}}),
            Mode::Growth { near_only } => json!({"growth": {"near_only": near_only}}),
            Mode::Burst => json!("burst"),
            Mode::Medium => json!("medium"),
            Mode::Large { upto } => json!({"large": {"upto": upto}}),
        };
        json!({"target": self.target, "target_name": self.targets[self.target].name, "mode": mode, "cancel": self.cancel})
    }
    fn from_config(v: &Value) -> Option<Framing> {
        let target = v["target"].as_u64()? as usize;
        let cancel = v["cancel"].as_bool()?;
        let m = &v["mode"];
        let mode = if m == "burst" {
            Mode::Burst
        } else if m == "medium" {
            Mode::Medium
        } else if let Some(s) = m.get("small") {
            Mode::Small { max_frames: s["max_frames"].as_u64()? as usize, all_upto: s["all_upto"].as_u64()? as usize }
        } else if let Some(g) = m.get("growth") {
            Mode::Growth { near_only: g["near_only"].as_bool()? }
        } else if let Some(l) = m.get("large") {
            Mode::Large { upto: l["upto"].as_u64()? as usize }
        } else {
            return None;
        };
        Some(Framing::new(target, mode, cancel))
    }
}

impl Harness for Framing {
    fn run(&self, cx: &Ctx) -> Verdict {
        let t = &self.targets[self.target];
        // 1. the peer's frames
        let mut frames: Vec<Frame> = Vec::new();
        let mut policy = ReadPolicy::PartitionDev;
        let mut filter: Option<fn(usize) -> bool> = None;
        let mut cut_set: Option<std::collections::BTreeSet<usize>> = None;
        match &self.mode {
            Mode::Small { max_frames, all_upto } => {
                let n = 1 + cx.choose(*max_frames, "frames:count-1");
                for _ in 0..n {
                    frames.push(t.sigma[cx.choose(t.sigma.len(), "frame:kind")].clone());
                }
                let total: usize = frames.iter().map(|f| f.bytes.len() + 1).sum();
                if total <= *all_upto {
                    policy = ReadPolicy::PartitionFree;
                    cx.goal("all-partitions");
                }
            }
            Mode::Growth { near_only } => {
                let size = GROWTH_SIZES[cx.choose(GROWTH_SIZES.len(), "big:size")];
                let variant = cx.choose(8, "big:valid|malformed|multibyte-malformed*3|multibyte-wrong-shape*3");
                let valid = variant == 0;
                let place = cx.choose(3, "big:alone|after-tiny|before-tiny");
                let big = (t.sized)(size, valid, if variant <= 1 { 3 } else { 98 + variant as u8 });
                if variant >= 2 && size >= 250 {
                    cx.goal("long-undecodable-frame-of-multibyte-characters");
                }
                let tiny = t.sigma[0].clone();
                match place {
                    0 => frames.push(big),
                    1 => {
                        frames.push(tiny);
                        frames.push(big);
                    }
                    _ => {
                        frames.push(big);
                        frames.push(tiny);
                    }
                }
                if *near_only {
                    filter = Some(near_step);
                }
                if size >= 256 {
                    cx.goal("frame-crosses-growth-step");
                }
                if size % 256 == 255 || size % 256 == 0 {
                    cx.goal("frame-ends-at-step");
                }
            }
            Mode::Medium => {
                let n = 2 + cx.choose(2, "medium:count-2");
                let bad = cx.choose(3, "medium:all-valid|first-malformed|last-malformed");
                let mut set = std::collections::BTreeSet::new();
                let mut pos = 0usize;
                for i in 0..n {
                    let size = MEDIUM_SIZES[cx.choose(MEDIUM_SIZES.len(), "medium:size")];
                    let valid = !((bad == 1 && i == 0) || (bad == 2 && i == n - 1));
                    frames.push((t.sized)(size, valid, 5 + i as u8));
                    pos += size + 1;
                    for d in [pos - 2, pos - 1, pos, pos + 1] {
                        set.insert(d);
                    }
                }
                for step in (256..pos).step_by(256) {
                    for d in step - 1..=step + 1 {
                        set.insert(d);
                    }
                }
                cut_set = Some(set);
                cx.goal("buffer-grows-behind-an-earlier-frame");
            }
            Mode::Large { upto } => {
                let sizes: Vec<usize> = LARGE_SIZES.iter().copied().filter(|s| s <= upto).collect();
                let size = sizes[cx.choose(sizes.len(), "large:size")];
                let variant = cx.choose(3, "large:valid|garbage|multibyte-undecodable");
                let place = cx.choose(3, "large:alone|after-tiny|before-tiny");
                let big = (t.sized)(size, variant == 0, if variant <= 1 { 3 } else { 100 + (size % 6) as u8 });
                let tiny = t.sigma[0].clone();
                let at = if place == 1 { tiny.bytes.len() + 1 } else { 0 };
                match place {
                    0 => frames.push(big),
                    1 => {
                        frames.push(tiny);
                        frames.push(big);
                    }
                    _ => {
                        frames.push(big);
                        frames.push(tiny);
                    }
                }
                // reads may end early one before, at or one after a power of two (counted from the
                // start of the stream and from the start of the large frame) and near the frame's end
                let mut set = std::collections::BTreeSet::new();
                let mut p = 256usize;
                while p <= size + 1 {
                    for base in [0, at] {
                        for d in [p - 1, p, p + 1] {
                            set.insert(base + d);
                        }
                    }
                    p *= 2;
                }
                for d in [size - 1, size, size + 1] {
                    set.insert(at + d);
                }
                cut_set = Some(set);
                if size >= 65536 {
                    cx.goal("frame-of-64KiB-or-more");
                }
            }
            Mode::Burst => {
                let n = 2 + cx.choose(39, "burst:count-2");
                let off = cx.choose(t.sigma.len(), "burst:first-kind");
                for i in 0..n {
                    frames.push(t.sigma[(off + i * 5) % t.sigma.len()].clone());
                }
                cx.goal("burst");
            }
        }
        let mut stream = Vec::new();
        for f in &frames {
            stream.extend_from_slice(&f.bytes);
            stream.push(0);
        }
        cx.log(|| format!("target {}; peer sends {} frame(s): {}", t.name, frames.len(), show(&stream)));
        for w in frames.windows(2) {
            if w[0].expect == "err" && w[1].expect != "err" && w[1].expect != "empty" {
                cx.goal("good-frame-after-bad");
            }
        }

        // 2. the connection under test
        let pend = if self.cancel { PendPolicy::ChoiceFree } else { PendPolicy::Never };
        let wire = Wire::stream(cx, &stream, policy, pend);
        wire.0.borrow_mut().cut_filter = filter;
        wire.0.borrow_mut().cut_set = cut_set;
        let mut conn = wire.connection();

        // 3. receive, comparing after every step
        let mut h = H64::new();
        // The set of frames the next result may belong to: one frame, unless empty frames (bare NULs)
        // are in the stream - the statement does not cover those, so each of them may have been
        // skipped or answered with an error, and every reading that fits is accepted.
        let closure = |set: &mut std::collections::BTreeSet<usize>| {
            let mut add = Vec::new();
            for j in set.iter() {
                let mut k = *j;
                while k < frames.len() && frames[k].expect == "empty" {
                    k += 1;
                    add.push(k);
                }
            }
            set.extend(add);
        };
        let mut at: std::collections::BTreeSet<usize> = [0usize].into_iter().collect();
        closure(&mut at);
        if frames.iter().any(|f| f.expect == "empty") {
            cx.goal("empty-frame-between-others");
        }
        let mut n = 0usize;
        let last;
        loop {
            let got = (t.recv)(&mut conn, cx, self.cancel);
            let i = *at.iter().next().unwrap();
            cx.log(|| format!("receive #{n}: {got}    (frame(s) {at:?} of {} may be next)", frames.len()));
            n += 1;
            let consumed = wire.0.borrow().consumed;
            cx.state(H64::new().u(i as u64).u(consumed as u64).s(&got).get());
            h.s(&got);
            if at.contains(&frames.len()) && got == "eof" {
                last = got;
                break;
            }
            // a frame that does not decode yields an error - but not the end-of-stream report, which
            // belongs to the moment the peer has closed and everything was consumed (consumers read
            // until then)
            let fits = |f: &Frame| if f.expect == "err" || f.expect == "empty" { got == "err" } else { got == f.expect };
            let mut next: std::collections::BTreeSet<usize> = at.iter().filter(|j| **j < frames.len() && fits(&frames[**j])).map(|j| j + 1).collect();
            if next.is_empty() {
                if i >= frames.len() {
                    last = got;
                    break;
                }
                let f = &frames[i];
                let kind = if got == "STALL" {
                    "stall"
                } else if (f.expect == "err" || f.expect == "empty") && got == "eof" {
                    "end-of-stream-reported-for-a-frame-that-does-not-decode"
                } else if f.expect == "err" || f.expect == "empty" {
                    "bad-frame-delivered-as-message"
                } else if got == "err" || got == "eof" {
                    "good-frame-rejected-or-lost"
                } else {
                    "wrong-message"
                };
                return Verdict::fail(
                    format!("framing:{kind}"),
                    format!("{}: stream {} ; receive #{} returned `{got}` but frame #{i} `{}` denotes `{}`", t.name, show(&stream), n - 1, show(&f.bytes), f.expect),
                );
            }
            closure(&mut next);
            at = next;
        }
        let got = last;
        cx.log(|| format!("receive after last frame: {got}    (expected: eof)"));
        if got != "eof" {
            return Verdict::fail(
                "framing:no-eof-after-last-frame",
                format!("{}: stream {} ; after all {} frames were consumed the next receive returned `{got}` instead of end-of-stream", t.name, show(&stream), frames.len()),
            );
        }
        let w = wire.0.borrow();
        if w.consumed != stream.len() {
            // every frame was accounted for and the connection reported end-of-stream, yet it never
            // took the last bytes off the transport (e.g. it offered the transport an empty buffer
            // and mistook the answer for EOF)
            return Verdict::fail(
                "framing:end-of-stream-reported-with-unread-bytes",
                format!("{}: stream {} ; end-of-stream was reported after {} of {} bytes had been read from the transport", t.name, show(&stream), w.consumed, stream.len()),
            );
        }
        if w.read_polls > frames.len() + 1 {
            cx.goal("frame-split-across-reads-or-polls");
        }
        h.u(w.read_polls as u64);
        Verdict::Pass(h.get())
    }
}

fn phases(tier: Tier, cancel: bool) -> Vec<(String, usize, Mode, u32)> {
    // (phase name, target, mode, deviation budget)
    let mut v = Vec::new();
    let nt = targets().len();
    for t in 0..nt {
        let main = t == 0 || t == 3;
        if !cancel {
            let (mf, upto, b) = match (tier, main) {
                (Tier::Quick, true) => (3, 11, 2),
                (Tier::Quick, false) => (2, 10, 1),
                (Tier::Thorough, true) => (3, 16, 3),
                (Tier::Thorough, false) => (3, 12, 2),
            };
            v.push((format!("small/t{t}"), t, Mode::Small { max_frames: mf, all_upto: upto }, b));
            if main || tier == Tier::Thorough {
                v.push((format!("growth-1cut/t{t}"), t, Mode::Growth { near_only: false }, 1));
                v.push((format!("growth-near-step-cuts/t{t}"), t, Mode::Growth { near_only: true }, tier.pick(2, 3)));
            } else {
                v.push((format!("growth-near-step-cuts/t{t}"), t, Mode::Growth { near_only: true }, 1));
            }
            v.push((format!("burst/t{t}"), t, Mode::Burst, tier.pick(1, 2)));
            if main {
                v.push((format!("large/t{t}"), t, Mode::Large { upto: tier.pick(300_000, 2_000_000) }, tier.pick(1, 2)));
            }
            v.push((format!("medium/t{t}"), t, Mode::Medium, if main { tier.pick(2, 3) } else { tier.pick(1, 2) }));
        } else {
            // C07: every read poll may be pending, every pending may be followed by a cancellation
            let (mf, upto, b) = match (tier, main) {
                (Tier::Quick, true) => (2, 7, 1),
                (Tier::Quick, false) => (1, 6, 1),
                (Tier::Thorough, true) => (2, 9, 2),
                (Tier::Thorough, false) => (2, 7, 1),
            };
            v.push((format!("cancel-small/t{t}"), t, Mode::Small { max_frames: mf, all_upto: upto }, b));
            if main || tier == Tier::Thorough {
                v.push((format!("cancel-growth/t{t}"), t, Mode::Growth { near_only: true }, tier.pick(1, 2)));
                v.push((format!("cancel-medium/t{t}"), t, Mode::Medium, tier.pick(1, 2)));
            }
        }
    }
    v
}

fn run(prop: &str, tier: Tier, cancel: bool) -> i32 {
    let mut rep = Report::new(prop, tier.name());
    rep.rule = if !cancel {
        "DFS by re-execution over: frame sequence (alphabet^<=3 per target type; one frame of every growth-boundary size alone/after/before a tiny frame - valid, garbage bytes, or undecodable but valid UTF-8 made of three-byte characters at each of the three alignments (unbalanced JSON / a JSON array); bursts of 2..40 tiny frames; one frame of 4 KiB .. 300 KB (thorough 1 MiB), one below / at / one above every power of two, valid or undecodable, alone / after / before a tiny frame, a read ending early next to a power of two; 2..3 frames of 100..300 bytes each, so that the buffer grows while earlier frames are still in it, with reads ending early next to growth steps and frame boundaries) x what every transport read returns (every partition of the byte stream for short streams, every cut set up to the deviation budget otherwise). An execution is one complete receive history on a fresh Connection; outcomes are distinct (result sequence, number of reads)".to_string()
    } else {
        "as C01, plus at every transport read poll the choice {ready, pending} and after every pending the choice {re-poll the same receive future, drop it and create a new one}; every subset of suspension points is cancelled for the short streams".to_string()
    };
    rep.assumptions = vec![
        "the scripted ReadHalf is itself cancel-safe (bytes leave its queue only in the poll that returns them), as ReadHalf::read requires".into(),
        "the statement is about non-empty frames; an empty frame (a bare NUL) in the stream may be skipped or answered with an error, but the results of the frames around it must be what they are without it".into(),
        "which error a bad frame yields is not fixed by the property: any error is accepted at a bad frame's position".into(),
    ];
    for g in ["all-partitions", "good-frame-after-bad", "frame-split-across-reads-or-polls"] {
        rep.require_goal(g);
    }
    if !cancel {
        rep.require_goal("burst");
        rep.require_goal("frame-of-64KiB-or-more");
    }
    rep.require_goal("frame-crosses-growth-step");
    rep.require_goal("long-undecodable-frame-of-multibyte-characters");
    rep.require_goal("buffer-grows-behind-an-earlier-frame");
    if cancel {
        rep.require_goal("receive-cancelled");
    }
    let wall = tier.pick(40, 900);
    if cancel {
        // the server's own use of the guarantee
        for (name, scen, budget) in crate::server::c07_phases(tier) {
            let h = crate::server::Scenario(scen);
            let cfg = Config { budget, max_wall: std::time::Duration::from_secs(wall), ..Default::default() };
            rep.add(explore(name, h.0.to_json(), &h, &cfg));
        }
        rep.rule.push_str("; plus Server::run over a scripted listener with two connections (calls cut mid-frame, short reads, delayed polls): the server drops all pending receive futures whenever another arm of its loop fires, and every call must still be answered once, in order");
    }
    for (name, t, mode, budget) in phases(tier, cancel) {
        let h = Framing::new(t, mode, cancel);
        let cfg = Config { budget, max_wall: std::time::Duration::from_secs(wall), ..Default::default() };
        let st = explore(&name, h.config(), &h, &cfg);
        rep.add(st);
    }
    // the transports zlink ships: a raw peer writes its frames over a real socket pair and leaves
    // (shutdown / close / close with data of ours unread) before the zlink end reads anything
    rep.require_goal("peer-leaves-with-data-of-ours-unread");
    rep.rule.push_str("; plus (child process `sockets c01-child`) over real socket pairs with the zlink-tokio / zlink-smol transports: a raw peer writes 1..2 (thorough 3) frames of 9 B .. 6 KB and then shuts down its sending side / closes / closes with data of ours unread before the zlink end has read anything: every frame is still received, in order, then the end of the stream or the transport's error");
    if let Err(code) = crate::common::child_phase_bin(&mut rep, "main", "sockets", "c01-child", tier, "real-sockets/peer-writes-then-leaves(child)") {
        return code;
    }
    if cancel {
        // the same guarantee over the transports zlink ships: real socket pairs, tokio and smol
        rep.require_goal("receive-abandoned-mid-traffic");
        rep.rule.push_str("; plus (child process `sockets c07-child`) real Unix socket pairs with zlink-tokio and zlink-smol: 1..3 messages of 1 B .. 70 KB / 400 KB in one or both directions, the first 8..14 steps of the schedule are choice points among {default, poll the sender, poll the receiver, drop the pending receive future} within a deviation budget; the received sequence must be the sent one");
        if let Err(code) = crate::common::child_phase_bin(&mut rep, "main", "sockets", "c07-child", tier, "real-sockets/receive-abandoned(child)") {
            return code;
        }
    }
    rep.finish()
}

pub fn run_c01(tier: Tier) -> i32 {
    run("C01", tier, false)
}
pub fn run_c07(tier: Tier) -> i32 {
    run("C07", tier, true)
}

pub fn replay(v: &Value) -> Replayed {
    if let Some(r) = crate::common::replay_child(v) {
        return r;
    }
    if v["harness"].get("max_conns").is_some() {
        return crate::server::replay(v);
    }
    match Framing::from_config(&v["harness"]) {
        Some(h) => replay_dfs(&h, v),
        None => Replayed::Error("cannot rebuild the framing harness from the replay file".into()),
    }
}
