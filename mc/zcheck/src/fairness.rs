//! C18 — round-robin service: a flooding client cannot starve the others.
//!
//! Seam: `Server::run` over the scripted listener, as in C08.  What is new is *when* things happen:
//! the server serves every buffered call inside a single poll, so "a single call arrives at an
//! arbitrary moment" is realised by injecting environment events at the hand-over of a call to the
//! service (every hand-over is an injection point).  For every configuration of roles and every
//! assignment of injection moments the global order in which calls reach the service is checked
//! against the two clauses of the statement.

use crate::common::{replay_dfs, Replayed, Tier};
use crate::server::{call_spec, CK};
use serde_json::{json, Value};
use simnet::svc::{Handled, SvcShared, TestSvc};
use simnet::{ScriptListener, Task, Wire};
use std::cell::RefCell;
use std::future::Future;
use std::pin::Pin;
use std::rc::Rc;
use std::task::Poll;
use xplore::report::Report;
use xplore::{explore, Config, Ctx, Harness, Verdict, H64};
use zlink_core::Server;

#[derive(Clone, Copy, Debug, PartialEq, Eq)]
enum Role {
    /// all its calls are there from the start
    Flooder,
    /// one single call at a chosen moment
    Single1,
    /// two single calls at two chosen moments
    Single2,
    /// one single call arriving in two chunks at two chosen moments
    SingleSplit,
    /// flooder whose burst has a streaming call in the middle; the stream ends at a chosen moment
    FlooderWatch,
    /// flooder that closes at a chosen moment
    FlooderClose,
    /// connects at a chosen moment and submits one call right away
    LateJoiner,
    /// one single call of about 350 bytes (more than the initial receive buffer) at a chosen moment
    SingleBig,
    /// one single call of about 5 KB at a chosen moment
    SingleHuge,
    /// flooder whose calls are alternately small and of about 350 bytes
    FlooderBig,
    /// a call arriving in two chunks at two moments, and later two calls in one arrival: whatever
    /// the connection remembers from the slow first call must not hide the second of the pair
    SplitThenPair,
    /// flooder all of whose calls are oneway
    FlooderOneway,
    /// flooder whose calls are oneway, oneway, plain, oneway, ...
    FlooderMixed,
}
const ONEWAY_ROLES: [Role; 4] = [Role::FlooderOneway, Role::FlooderMixed, Role::Single1, Role::Single2];
const ROLES: [Role; 7] = [Role::Flooder, Role::Single1, Role::Single2, Role::SingleSplit, Role::FlooderWatch, Role::FlooderClose, Role::LateJoiner];
const SIZE_ROLES: [Role; 6] = [Role::Flooder, Role::FlooderBig, Role::Single1, Role::SingleBig, Role::SingleHuge, Role::SplitThenPair];

#[derive(Clone, Debug)]
enum Act {
    Arrive { conn: usize, bytes: Vec<u8>, completes: Vec<u32> },
    Close(usize),
    EndStream(u32),
    Connect(usize),
}

const PRE: usize = usize::MAX;

struct Snap {
    epoch: u64,
    eligible: Vec<bool>,
}

struct World {
    cx: Ctx,
    listener: ScriptListener,
    wires: Vec<Wire>,
    connected: Vec<bool>,
    sched: Vec<(usize, Act, bool)>,
    /// call id -> (service-log length when it became complete, epoch then)
    stamps: Vec<(u32, usize)>,
    snaps: Vec<Snap>,
    shared: SvcShared,
}

impl World {
    fn epoch_and_eligibility(&self) -> (u64, Vec<bool>) {
        let log = self.shared.log.borrow();
        let streams = self.shared.streams.borrow();
        let accepted = self.listener.0.borrow().accepted.len();
        let mut epoch = accepted as u64;
        let mut elig = vec![false; self.wires.len()];
        for (i, w) in self.wires.iter().enumerate() {
            let dropped = w.dropped();
            if dropped {
                epoch += 1;
            }
            let was_accepted = self.listener.0.borrow().accepted.iter().any(|(wid, _)| *wid == i);
            // parked: the last call of this connection the service saw is a Watch whose stream is still alive
            let last = log.iter().rev().find(|h| h.id / 100 == i as u32 + 1);
            let parked = matches!(last, Some(h) if h.kind == 'W' && streams.get(&h.id).map_or(true, |s| !s.dropped()));
            elig[i] = was_accepted && !dropped && !parked;
        }
        for h in log.iter() {
            if h.kind == 'W' {
                epoch += 1;
                if streams.get(&h.id).map_or(false, |s| s.dropped()) {
                    epoch += 1;
                }
            }
        }
        (epoch, elig)
    }

    fn fire(&mut self, idx: usize) {
        let (_, act, fired) = &mut self.sched[idx];
        if *fired {
            return;
        }
        *fired = true;
        let act = act.clone();
        let loglen = self.shared.log.borrow().len();
        match act {
            Act::Arrive { conn, bytes, completes } => {
                self.cx.log(|| format!("  [after {loglen} calls served] conn {conn}: {} bytes arrive, completing calls {completes:?}", bytes.len()));
                for id in completes {
                    self.stamps.push((id, loglen));
                }
                self.wires[conn].arrive(&bytes);
            }
            Act::Close(conn) => {
                self.cx.log(|| format!("  [after {loglen} calls served] conn {conn}: client closes"));
                self.wires[conn].close();
            }
            Act::EndStream(k) => {
                self.cx.log(|| format!("  [after {loglen} calls served] stream {k} ends"));
                let h = self.shared.streams.borrow().get(&k).cloned();
                match h {
                    Some(h) => h.end(),
                    None => {
                        // the service has not opened it yet: try again at the next moment
                        self.sched[idx].2 = false;
                        self.sched[idx].0 = loglen + 1;
                    }
                }
            }
            Act::Connect(conn) => {
                self.cx.log(|| format!("  [after {loglen} calls served] client {conn} connects"));
                self.connected[conn] = true;
                self.listener.connect(self.wires[conn].clone());
            }
        }
    }

    /// Called by the service at every hand-over, before the call is logged.
    fn handover(&mut self) -> u64 {
        let loglen = self.shared.log.borrow().len();
        let (epoch, eligible) = self.epoch_and_eligibility();
        self.snaps.push(Snap { epoch, eligible });
        let due: Vec<usize> = (0..self.sched.len()).filter(|i| !self.sched[*i].2 && self.sched[*i].0 != PRE && self.sched[*i].0 <= loglen).collect();
        for i in due {
            self.fire(i);
        }
        epoch
    }
}

struct Fairness {
    max_conns: usize,
    flood: usize,
    moments: usize,
    roles: Vec<Role>,
}

impl Fairness {
    fn config(&self) -> Value {
        json!({"max_conns": self.max_conns, "flood": self.flood, "moments": self.moments, "roles": self.roles.iter().map(|r| format!("{r:?}")).collect::<Vec<_>>()})
    }
    fn from_config(v: &Value) -> Option<Fairness> {
        Some(Fairness {
            max_conns: v["max_conns"].as_u64()? as usize,
            flood: v["flood"].as_u64()? as usize,
            moments: v["moments"].as_u64()? as usize,
            roles: v["roles"].as_array()?.iter().map(|r| *ROLES.iter().chain(SIZE_ROLES.iter()).chain(ONEWAY_ROLES.iter()).find(|x| format!("{x:?}") == r.as_str().unwrap()).unwrap()).collect(),
        })
    }
    /// Pick a moment strictly later than `after`.  Moments are PRE (before the server first runs)
    /// and m = 0..moments-1 (at the hand-over of the call that will be logged at position m).
    fn moment(&self, cx: &Ctx, after: Option<usize>) -> usize {
        // t = 0 is PRE, t >= 1 is m = t - 1
        let lo = match after {
            None => 0,
            Some(PRE) => 1,
            Some(m) => m + 2,
        };
        let hi = self.moments; // inclusive t
        let t = if lo >= hi { hi } else { lo + cx.choose(hi - lo + 1, "moment") };
        if t == 0 {
            PRE
        } else {
            t - 1
        }
    }
}

impl Harness for Fairness {
    fn run(&self, cx: &Ctx) -> Verdict {
        // 1. configuration
        let n = 2 + cx.choose(self.max_conns - 1, "connections-2");
        let roles: Vec<Role> = (0..n).map(|_| self.roles[cx.choose(self.roles.len(), "role")]).collect();
        let is_flooder = |r: &Role| matches!(r, Role::Flooder | Role::FlooderWatch | Role::FlooderClose | Role::FlooderBig | Role::FlooderOneway | Role::FlooderMixed);
        if !roles.iter().any(is_flooder) || roles.iter().all(is_flooder) {
            // the statement is about a mix of flooders and single-call clients
            return Verdict::Pass(0);
        }
        let listener = ScriptListener::new();
        let (svc, shared) = TestSvc::new();
        let wires: Vec<Wire> = (0..n).map(|i| Wire::new(i, Some(cx.clone()))).collect();
        let world = Rc::new(RefCell::new(World { cx: cx.clone(), listener: listener.clone(), wires: wires.clone(), connected: vec![false; n], sched: vec![], stamps: vec![], snaps: vec![], shared: shared.clone() }));
        let mut total_calls = 0usize;
        let mut transitions_planned = 0usize;
        {
            let mut w = world.borrow_mut();
            for (i, r) in roles.iter().enumerate() {
                let base = (i as u32 + 1) * 100;
                let burst = |kinds: &[CK]| -> (Vec<u8>, Vec<u32>) {
                    let mut bytes = Vec::new();
                    let mut ids = Vec::new();
                    for (j, k) in kinds.iter().enumerate() {
                        let c = call_spec(*k, base + j as u32);
                        bytes.extend_from_slice(&c.frame);
                        ids.push(c.id);
                    }
                    (bytes, ids)
                };
                match r {
                    Role::Flooder | Role::FlooderClose => {
                        let (bytes, ids) = burst(&vec![CK::P; self.flood]);
                        total_calls += ids.len();
                        w.sched.push((PRE, Act::Arrive { conn: i, bytes, completes: ids }, false));
                        if *r == Role::FlooderClose {
                            let m = self.moment(cx, None);
                            w.sched.push((m, Act::Close(i), false));
                            transitions_planned += 1;
                            cx.goal("connection-closes-while-others-wait");
                        }
                        cx.goal("flooder");
                    }
                    Role::FlooderWatch => {
                        let mut kinds = vec![CK::P; self.flood];
                        kinds[1] = CK::W(0, true);
                        let (bytes, ids) = burst(&kinds);
                        total_calls += ids.len();
                        let k = ids[1];
                        w.sched.push((PRE, Act::Arrive { conn: i, bytes, completes: ids }, false));
                        let m = self.moment(cx, None);
                        w.sched.push((if m == PRE { 0 } else { m }, Act::EndStream(k), false));
                        transitions_planned += 2;
                        cx.goal("streaming-transition");
                        cx.goal("flooder");
                    }
                    Role::FlooderOneway | Role::FlooderMixed => {
                        let kinds: Vec<CK> = (0..self.flood).map(|j| if *r == Role::FlooderMixed && j % 3 == 2 { CK::P } else { CK::O }).collect();
                        let (bytes, ids) = burst(&kinds);
                        total_calls += ids.len();
                        w.sched.push((PRE, Act::Arrive { conn: i, bytes, completes: ids }, false));
                        cx.goal("flooder");
                        cx.goal("flood-of-oneway-calls");
                    }
                    Role::FlooderBig => {
                        let kinds: Vec<CK> = (0..self.flood).map(|j| if j % 2 == 0 { CK::P } else { CK::B }).collect();
                        let (bytes, ids) = burst(&kinds);
                        total_calls += ids.len();
                        w.sched.push((PRE, Act::Arrive { conn: i, bytes, completes: ids }, false));
                        cx.goal("flooder");
                    }
                    Role::Single1 | Role::SingleBig | Role::SingleHuge => {
                        let (bytes, ids) = burst(&[match r {
                            Role::SingleBig => CK::B,
                            Role::SingleHuge => CK::H,
                            _ => CK::P,
                        }]);
                        if *r != Role::Single1 {
                            cx.goal("single-call-larger-than-the-receive-buffer");
                        }
                        total_calls += 1;
                        let m = self.moment(cx, None);
                        if m != PRE {
                            cx.goal("single-call-arrives-mid-flood");
                        }
                        w.sched.push((m, Act::Arrive { conn: i, bytes, completes: ids }, false));
                    }
                    Role::Single2 => {
                        total_calls += 2;
                        let m1 = self.moment(cx, None);
                        let c1 = call_spec(CK::P, base);
                        w.sched.push((m1, Act::Arrive { conn: i, bytes: c1.frame, completes: vec![c1.id] }, false));
                        let m2 = self.moment(cx, Some(m1));
                        let c2 = call_spec(CK::P, base + 1);
                        w.sched.push((m2, Act::Arrive { conn: i, bytes: c2.frame, completes: vec![c2.id] }, false));
                        cx.goal("single-call-arrives-mid-flood");
                    }
                    Role::SingleSplit => {
                        total_calls += 1;
                        let c = call_spec(CK::P, base);
                        let cut = c.frame.len() / 2;
                        let m1 = self.moment(cx, None);
                        w.sched.push((m1, Act::Arrive { conn: i, bytes: c.frame[..cut].to_vec(), completes: vec![] }, false));
                        let m2 = self.moment(cx, Some(m1));
                        w.sched.push((m2, Act::Arrive { conn: i, bytes: c.frame[cut..].to_vec(), completes: vec![c.id] }, false));
                        cx.goal("single-call-in-two-chunks");
                    }
                    Role::SplitThenPair => {
                        total_calls += 3;
                        let c = call_spec(CK::B, base);
                        let cut = c.frame.len() / 2;
                        let m1 = self.moment(cx, None);
                        w.sched.push((m1, Act::Arrive { conn: i, bytes: c.frame[..cut].to_vec(), completes: vec![] }, false));
                        let m2 = self.moment(cx, Some(m1));
                        w.sched.push((m2, Act::Arrive { conn: i, bytes: c.frame[cut..].to_vec(), completes: vec![c.id] }, false));
                        let m3 = self.moment(cx, Some(m2));
                        let (c2, c3) = (call_spec(CK::P, base + 1), call_spec(CK::P, base + 2));
                        let mut bytes = c2.frame.clone();
                        bytes.extend_from_slice(&c3.frame);
                        w.sched.push((m3, Act::Arrive { conn: i, bytes, completes: vec![c2.id, c3.id] }, false));
                        cx.goal("single-call-in-two-chunks");
                        cx.goal("pair-of-calls-after-a-slowly-arriving-one");
                    }
                    Role::LateJoiner => {
                        total_calls += 1;
                        let m = self.moment(cx, None);
                        let c = call_spec(CK::P, base);
                        w.sched.push((m, Act::Connect(i), false));
                        w.sched.push((m, Act::Arrive { conn: i, bytes: c.frame, completes: vec![c.id] }, false));
                        transitions_planned += 1;
                        cx.goal("connection-joins-while-others-wait");
                    }
                }
            }
        }
        cx.log(|| format!("roles: {roles:?}"));
        // 2. run
        {
            let w2 = world.clone();
            *shared.probe.borrow_mut() = Some(Box::new(move || w2.borrow_mut().handover()));
        }
        let server = Server::new(listener.clone(), svc);
        let mut fut: Pin<Box<dyn Future<Output = zlink_core::Result<()>>>> = Box::pin(server.run());
        let mut task = Task::new();
        {
            let mut w = world.borrow_mut();
            for (i, r) in roles.iter().enumerate() {
                if *r != Role::LateJoiner {
                    w.connected[i] = true;
                    listener.connect(wires[i].clone());
                }
            }
        }
        // accept everybody first, then the PRE events, then let the server run
        if let Poll::Ready(r) = task.run_until_stalled(fut.as_mut(), 100_000) {
            return Verdict::fail("fairness:server-exited", format!("{r:?}"));
        }
        {
            let mut w = world.borrow_mut();
            let pre: Vec<usize> = (0..w.sched.len()).filter(|i| w.sched[*i].0 == PRE).collect();
            for i in pre {
                w.fire(i);
            }
        }
        let mut rounds = 0;
        loop {
            if task.woken() {
                if let Poll::Ready(r) = task.run_until_stalled(fut.as_mut(), 100_000) {
                    return Verdict::fail("fairness:server-exited", format!("{r:?}"));
                }
            }
            // moments that never came (fewer calls were served than planned): deliver one by one now
            let next = {
                let w = world.borrow();
                (0..w.sched.len()).filter(|i| !w.sched[*i].2).min_by_key(|i| w.sched[*i].0)
            };
            match next {
                Some(i) => {
                    let mut w = world.borrow_mut();
                    // a stream that the service never opened cannot be ended: drop the event
                    if let Act::EndStream(k) = &w.sched[i].1 {
                        if !shared.streams.borrow().contains_key(k) {
                            w.sched[i].2 = true;
                            continue;
                        }
                    }
                    w.fire(i);
                }
                None => break,
            }
            rounds += 1;
            if rounds > 1000 {
                xplore::bug!("fairness driver does not terminate");
            }
        }
        *shared.probe.borrow_mut() = None;

        // 3. oracle
        let w = world.borrow();
        let log: Vec<Handled> = shared.log.borrow().clone();
        let conn_of = |id: u32| (id / 100 - 1) as usize;
        let pos_of = |id: u32| log.iter().position(|h| h.id == id);
        cx.log(|| format!("service order: {:?}", log.iter().map(|h| h.id).collect::<Vec<_>>()));
        if w.snaps.len() != log.len() {
            xplore::bug!("snapshots {} != log {}", w.snaps.len(), log.len());
        }
        // every complete call on a connection that stayed open is served in the end
        for (id, _) in &w.stamps {
            let c = conn_of(*id);
            let open_role = !matches!(roles[c], Role::FlooderClose);
            if pos_of(*id).is_none() && open_role {
                // calls queued behind a stream that never ended are not owed
                return Verdict::fail("fairness:call-never-served", format!("roles {roles:?}: call {id} of conn {c} was complete and its connection open, but it never reached the service; order {:?}", log.iter().map(|h| h.id).collect::<Vec<_>>()));
            }
        }
        // clause 1
        for a in 0..n {
            let mine: Vec<usize> = log.iter().enumerate().filter(|(_, h)| conn_of(h.id) == a).map(|(j, _)| j).collect();
            for pq in mine.windows(2) {
                let (p, q) = (pq[0], pq[1]);
                if w.snaps[p].epoch != w.snaps[q].epoch {
                    continue;
                }
                for b in 0..n {
                    if b == a || !w.snaps[p].eligible[b] || !w.snaps[q].eligible[b] {
                        continue;
                    }
                    let waiting = w.stamps.iter().any(|(id, st)| conn_of(*id) == b && *st <= p && pos_of(*id).map_or(true, |x| x > p));
                    let served_between = log[p + 1..q].iter().any(|h| conn_of(h.id) == b);
                    if waiting && !served_between {
                        return Verdict::fail(
                            "fairness:served-twice-while-another-waited",
                            format!(
                                "roles {roles:?}: conn {a} was served at positions {p} and {q} of the service order {:?} although conn {b} had a complete call waiting since before position {p} and the connection set did not change",
                                log.iter().map(|h| h.id).collect::<Vec<_>>()
                            ),
                        );
                    }
                }
            }
        }
        // clause 2
        let mut worst = 0usize;
        for (id, st) in &w.stamps {
            let Some(sp) = pos_of(*id) else { continue };
            let b = conn_of(*id);
            let prev = log[..sp].iter().rposition(|h| conn_of(h.id) == b).map_or(0, |x| x + 1);
            let start = (*st).max(prev);
            if start >= sp {
                continue;
            }
            let others = (start..sp).filter(|j| w.snaps[*j].eligible[b]).count();
            let t = (w.snaps[sp].epoch - w.snaps[start].epoch) as usize;
            worst = worst.max(others);
            if others > n * (t + 1) {
                return Verdict::fail(
                    "fairness:waited-longer-than-the-bound",
                    format!("roles {roles:?}: call {id} of conn {b} waited while {others} other calls were served (positions {start}..{sp} of {:?}); bound is {n} connections x ({t} transitions + 1)", log.iter().map(|h| h.id).collect::<Vec<_>>()),
                );
            }
            if others >= 1 {
                cx.goal("a-call-waited-behind-others");
            }
        }
        let _ = (total_calls, transitions_planned);
        let mut h = H64::new();
        for e in &log {
            h.u(e.id as u64);
        }
        cx.state(H64::new().u(log.len() as u64).u(worst as u64).get());
        Verdict::Pass(h.get())
    }
}

pub fn run(tier: Tier) -> i32 {
    let mut rep = Report::new("C18", tier.name());
    rep.rule = "DFS by re-execution over: number of connections x role of each connection (flooder with all calls buffered from the start; one single call; two single calls; one single call arriving in two chunks; flooder whose burst parks it in a stream that ends later; flooder that closes; late joiner; in the sizes phase single calls of 350 bytes and 5 KB, flooders with calls of mixed sizes, and a client whose first call arrives in two chunks and who later sends two calls in one arrival) x the moment of every scheduled event, where a moment is `before the server first runs` or `at the hand-over of the m-th call to the service` for every m. Only mixes with at least one flooder and one non-flooder count. Outcomes are distinct global service orders".into();
    rep.assumptions = vec![
        "a call is `waiting` from the hand-over at which its last byte was delivered; the connection set changes when the server accepts, drops, parks (streaming call handled) or un-parks (stream dropped) a connection, observed at every hand-over".into(),
        "clause 2 is checked as: while a connection's head-of-line call waits and the connection is in the served set, at most N*(T+1) other calls are served, N = connections, T = set changes during the wait".into(),
        "non-flooders submit single complete calls (the statement's quantifier); a complete call followed by a partial one is outside it".into(),
    ];
    for g in ["flooder", "single-call-arrives-mid-flood", "single-call-in-two-chunks", "streaming-transition", "connection-closes-while-others-wait", "connection-joins-while-others-wait", "a-call-waited-behind-others", "single-call-larger-than-the-receive-buffer", "pair-of-calls-after-a-slowly-arriving-one"] {
        rep.require_goal(g);
    }
    let wall = std::time::Duration::from_secs(tier.pick(50, 1500));
    let plan: Vec<(&str, Fairness)> = match tier {
        Tier::Quick => vec![
            ("<=3conns/flood5/8moments", Fairness { max_conns: 3, flood: 5, moments: 8, roles: ROLES.to_vec() }),
            ("<=4conns/flood4/5moments/core-roles", Fairness { max_conns: 4, flood: 4, moments: 5, roles: vec![Role::Flooder, Role::Single1, Role::FlooderClose, Role::FlooderWatch] }),
        ],
        Tier::Thorough => vec![
            ("<=3conns/flood8/14moments", Fairness { max_conns: 3, flood: 8, moments: 14, roles: ROLES.to_vec() }),
            ("<=4conns/flood5/8moments", Fairness { max_conns: 4, flood: 5, moments: 8, roles: ROLES.to_vec() }),
            ("<=5conns/flood4/5moments/core-roles", Fairness { max_conns: 5, flood: 4, moments: 5, roles: vec![Role::Flooder, Role::Single1, Role::FlooderClose, Role::FlooderWatch] }),
        ],
    };
    let mut plan = plan;
    // calls that do not fit the receive buffer as it is (it has to grow, once or many times, while
    // the flood goes on)
    plan.push(("sizes/<=3conns/flood5/8moments", Fairness { max_conns: 3, flood: 5, moments: tier.pick(8, 10), roles: SIZE_ROLES.to_vec() }));
    // floods of oneway calls (no reply to write: a turn of its own kind in the server's loop)
    plan.push(("oneway-floods/<=3conns/flood5/8moments", Fairness { max_conns: 3, flood: 5, moments: tier.pick(8, 10), roles: ONEWAY_ROLES.to_vec() }));
    rep.require_goal("flood-of-oneway-calls");
    for (name, h) in plan {
        let cfg = Config { max_wall: wall, ..Default::default() };
        rep.add(explore(name, h.config(), &h, &cfg));
    }
    // the same first clause over the listeners and transports zlink ships (how a transport reports
    // readiness decides who can win a turn): child process of the sockets binary
    rep.require_goal("several-clients-with-calls-ready-before-the-server-looks");
    rep.rule.push_str("; plus (child process `sockets c18-child`) Server::run over the listeners and transports of zlink-tokio and zlink-smol: 2..3 std clients whose bursts (1 call, 4 pipelined calls, a 350-byte call, mixed) are all in their sockets before the server looks; nobody is served twice before everybody was served once");
    if let Err(code) = crate::common::child_phase_bin(&mut rep, "main", "sockets", "c18-child", tier, "real-listeners-and-transports/tokio+smol(child)") {
        return code;
    }
    rep.finish()
}

pub fn replay(v: &Value) -> Replayed {
    if let Some(r) = crate::common::replay_child(v) {
        return r;
    }
    match Fairness::from_config(&v["harness"]) {
        Some(h) => replay_dfs(&h, v),
        None => Replayed::Error("cannot rebuild the fairness harness from the replay file".into()),
    }
}
