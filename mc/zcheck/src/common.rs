use serde_json::Value;
use xplore::{Harness, Verdict};

#[derive(Clone, Copy, Debug, PartialEq, Eq)]
pub enum Tier {
    Quick,
    Thorough,
}
impl Tier {
    pub fn name(self) -> &'static str {
        match self {
            Tier::Quick => "quick",
            Tier::Thorough => "thorough",
        }
    }
    pub fn pick<T>(self, q: T, t: T) -> T {
        match self {
            Tier::Quick => q,
            Tier::Thorough => t,
        }
    }
}

pub enum Replayed {
    Pass(Vec<String>),
    Fail { trace: Vec<String>, class: String, detail: String },
    Error(String),
}

/// Replay a DFS counterexample: the harness is rebuilt by the caller from `v["harness"]`.
pub fn replay_dfs<H: Harness + ?Sized>(h: &H, v: &Value) -> Replayed {
    let Some(ch) = v["choices"].as_array() else { return Replayed::Error("replay file has no `choices`".into()) };
    let choices: Vec<u32> = ch.iter().map(|x| x.as_u64().unwrap_or(0) as u32).collect();
    let budget = v["budget"].as_u64().unwrap_or(0) as u32;
    let (trace, verdict) = xplore::replay(h, budget, &choices);
    // run it a second time: a counterexample must be reproducible
    let (trace2, verdict2) = xplore::replay(h, budget, &choices);
    // heap addresses quoted in a trace (C11) differ from run to run: they are masked for the comparison
    let mask = |t: &[String]| -> Vec<String> { t.iter().map(|l| mask_addresses(l)).collect() };
    let same = mask(&trace) == mask(&trace2)
        && match (&verdict, &verdict2) {
            (Ok(Verdict::Pass(a)), Ok(Verdict::Pass(b))) => a == b,
            (Ok(Verdict::Fail(a)), Ok(Verdict::Fail(b))) => a.class == b.class,
            (Err(a), Err(b)) => a == b,
            _ => false,
        };
    if !same {
        return Replayed::Error("two replays of the same choice vector differ (uncontrolled nondeterminism)".into());
    }
    match verdict {
        Ok(Verdict::Pass(_)) => Replayed::Pass(trace),
        Ok(Verdict::Fail(f)) => Replayed::Fail { trace, class: f.class, detail: f.detail },
        Err(e) if e.starts_with("BUG: ") => Replayed::Error(e),
        Err(e) => Replayed::Fail { trace, class: xplore::panic_class(&e), detail: e },
    }
}

/// Replace every `0x` followed by six or more hex digits by `0xADDR`.
pub fn mask_addresses(line: &str) -> String {
    let b = line.as_bytes();
    let mut out = String::with_capacity(line.len());
    let mut i = 0;
    while i < b.len() {
        if b[i] == b'0' && i + 1 < b.len() && b[i + 1] == b'x' {
            let mut j = i + 2;
            while j < b.len() && b[j].is_ascii_hexdigit() {
                j += 1;
            }
            if j - (i + 2) >= 6 {
                out.push_str("0xADDR");
                i = j;
                continue;
            }
        }
        // copy one UTF-8 character
        let ch_len = match b[i] {
            x if x < 0x80 => 1,
            x if x >= 0xf0 => 4,
            x if x >= 0xe0 => 3,
            _ => 2,
        };
        out.push_str(&line[i..(i + ch_len).min(line.len())]);
        i += ch_len;
    }
    out
}

// ------------------------------------------------------------------------------------------------
// phases that have to run in another build flavour (e.g. with the production buffer limit) run in a
// child process of that flavour's binary, which prints one JSON line

/// Child side: print the statistics of one sweep as the JSON line the parent expects.
pub fn print_child_stats(st: &xplore::Stats) {
    let viol: Vec<Value> = st.violations.iter().map(|(c, r)| serde_json::json!({"class": c, "detail": r.detail, "case": r.replay["case"], "index": r.replay["index"], "count": r.count})).collect();
    let goals: serde_json::Map<String, Value> = st.goals.iter().map(|(k, v)| (k.clone(), serde_json::json!(v))).collect();
    println!("{}", serde_json::json!({"evals": st.evals, "transitions": st.transitions, "states": st.states.len(), "outcomes": st.outcomes.len(), "violations": viol, "goals": goals, "errors": st.machinery_errors}));
}

fn run_child(flavor: &str, args: &[String]) -> Result<Value, String> {
    run_child_bin(flavor, "zcheck", args)
}

fn run_child_bin(flavor: &str, bin: &str, args: &[String]) -> Result<Value, String> {
    let child = xplore::report::build_dir(flavor).join("release").join(bin);
    let out = std::process::Command::new(&child).args(args).output().map_err(|e| format!("cannot run {}: {e}", child.display()))?;
    if !out.status.success() {
        return Err(format!("{} {args:?} ended with {:?}: {}", child.display(), out.status, String::from_utf8_lossy(&out.stderr).lines().last().unwrap_or("")));
    }
    let txt = String::from_utf8_lossy(&out.stdout).to_string();
    let v: Value = txt.lines().last().and_then(|l| serde_json::from_str(l).ok()).ok_or_else(|| format!("{} {args:?} printed no JSON line", child.display()))?;
    if v["errors"].as_array().map_or(true, |a| !a.is_empty()) {
        return Err(format!("child {args:?}: {}", v["errors"]));
    }
    Ok(v)
}

/// Parent side: run `zcheck <sub>` of build flavour `flavor`, and add what it reports as phase
/// `phase` (its violations become violations of this run, tagged so that a replay goes back to the
/// child).  `Err(2)` on a machinery problem.
pub fn child_phase(rep: &mut xplore::report::Report, flavor: &str, sub: &str, tier: Tier, phase: &str) -> Result<(), i32> {
    child_phase_bin(rep, flavor, "zcheck", sub, tier, phase)
}

/// The same for a phase that another binary of the workspace runs (`bin <sub> --tier t`).  The
/// child's violations carry their complete replay records, so that a replay can hand them back to
/// that binary's own `--replay`.
pub fn child_phase_bin(rep: &mut xplore::report::Report, flavor: &str, bin: &str, sub: &str, tier: Tier, phase: &str) -> Result<(), i32> {
    let v = run_child_bin(flavor, bin, &[sub.to_string(), "--tier".into(), tier.name().into()]).map_err(|e| {
        eprintln!("MACHINERY: {e}");
        2
    })?;
    let viol: Vec<Value> = v["violations"].as_array().cloned().unwrap_or_default();
    let evals = v["evals"].as_u64().unwrap_or(0);
    let nstates = v["states"].as_u64().unwrap_or(0);
    let nout = v["outcomes"].as_u64().unwrap_or(0);
    let trans = v["transitions"].as_u64().unwrap_or(0);
    let goals: Vec<(&'static str, u64)> = v["goals"].as_object().map(|m| m.iter().map(|(k, c)| (&*Box::leak(k.clone().into_boxed_str()), c.as_u64().unwrap_or(0))).collect()).unwrap_or_default();
    let n = evals.max(viol.len() as u64).max(1);
    if v["caps"].as_array().map_or(false, |a| !a.is_empty()) {
        eprintln!("MACHINERY: child {bin} {sub} hit a cap: {}", v["caps"]);
        return Err(2);
    }
    let sub = sub.to_string();
    let flavor = flavor.to_string();
    let bin = bin.to_string();
    rep.add(xplore::sweep(phase, n, &xplore::Config { threads: 1, ..Default::default() }, |i, s| {
        if i == 0 {
            for (g, c) in &goals {
                for _ in 0..(*c).min(3) {
                    s.goal(g);
                }
            }
            s.steps(trans);
        }
        match viol.get(i as usize) {
            Some(x) => s.fail(x["class"].as_str().unwrap_or("child:violation"), x["detail"].as_str().unwrap_or(""), serde_json::json!({"child": sub, "bin": bin, "flavor": flavor, "index": x["index"], "case": x["case"], "child_replay": x["replay"]})),
            None => {
                // the child's distinct states / outcomes are carried over by count
                if i < nstates {
                    s.state(i);
                }
                if i < 4 {
                    s.sample(|| serde_json::json!({"phase_run_in_child_process": sub, "build": flavor, "case_number": i, "result": "as required"}));
                }
                s.pass(if i < nout { i } else { 0 })
            }
        }
    }));
    Ok(())
}

/// Replay of a violation that a child phase reported: the child re-runs exactly that case.
pub fn replay_child(v: &Value) -> Option<Replayed> {
    let c = &v["case"];
    let sub = c["child"].as_str()?;
    let flavor = c["flavor"].as_str()?;
    if let (Some(bin), true) = (c["bin"].as_str().filter(|b| *b != "zcheck"), c["child_replay"].is_object()) {
        // another binary's counterexample: hand the record to that binary's own --replay
        let dir = xplore::report::build_dir(flavor);
        let file = dir.join(format!("child-replay-{:08x}.json", xplore::hash_of(&c["child_replay"].to_string()) & 0xffff_ffff));
        if let Err(e) = std::fs::write(&file, c["child_replay"].to_string()) {
            return Some(Replayed::Error(format!("cannot write {}: {e}", file.display())));
        }
        let exe = dir.join("release").join(bin);
        let out = match std::process::Command::new(&exe).arg("--replay").arg(&file).output() {
            Ok(o) => o,
            Err(e) => return Some(Replayed::Error(format!("cannot run {}: {e}", exe.display()))),
        };
        let text = String::from_utf8_lossy(&out.stdout).to_string();
        let trace: Vec<String> = text.lines().filter(|l| !l.starts_with("VIOLATION ")).map(|l| l.to_string()).collect();
        let find = |key: &str| text.lines().find_map(|l| l.strip_prefix(key)).unwrap_or("").to_string();
        return Some(match out.status.code() {
            Some(0) => Replayed::Pass(trace),
            Some(1) => Replayed::Fail { trace, class: find("  class: "), detail: find("  detail: ") },
            other => Replayed::Error(format!("{} --replay ended with {other:?}: {}", exe.display(), String::from_utf8_lossy(&out.stderr).lines().last().unwrap_or(""))),
        });
    }
    let idx = c["index"].as_u64()?;
    Some(match run_child(flavor, &[sub.to_string(), "--case".into(), idx.to_string()]) {
        Err(e) => Replayed::Error(e),
        Ok(r) => match r["violations"].as_array().and_then(|a| a.first()) {
            Some(x) => Replayed::Fail { trace: vec![format!("case {} (run by `zcheck {sub}` of the {flavor} build)", x["case"])], class: x["class"].as_str().unwrap_or("").to_string(), detail: x["detail"].as_str().unwrap_or("").to_string() },
            None => Replayed::Pass(vec![format!("case {} (run by `zcheck {sub}` of the {flavor} build)", c["case"])]),
        },
    })
}
