use serde_json::Value;
use xplore::{Harness, Verdict};

#[derive(Clone, Copy, Debug, PartialEq, Eq)]
pub enum Tier {
    Quick,
    Thorough,
}
impl Tier {
    pub fn name(self) -> &'static str {
        match self {
            Tier::Quick => "quick",
            Tier::Thorough => "thorough",
        }
    }
    pub fn pick<T>(self, q: T, t: T) -> T {
        match self {
            Tier::Quick => q,
            Tier::Thorough => t,
        }
    }
}

pub enum Replayed {
    Pass(Vec<String>),
    Fail { trace: Vec<String>, class: String, detail: String },
    Error(String),
}

/// Replay a DFS counterexample: the harness is rebuilt by the caller from `v["harness"]`.
pub fn replay_dfs<H: Harness + ?Sized>(h: &H, v: &Value) -> Replayed {
    let Some(ch) = v["choices"].as_array() else { return Replayed::Error("replay file has no `choices`".into()) };
    let choices: Vec<u32> = ch.iter().map(|x| x.as_u64().unwrap_or(0) as u32).collect();
    let budget = v["budget"].as_u64().unwrap_or(0) as u32;
    let (trace, verdict) = xplore::replay(h, budget, &choices);
    // run it a second time: a counterexample must be reproducible
    let (trace2, verdict2) = xplore::replay(h, budget, &choices);
    // heap addresses quoted in a trace (C11) differ from run to run: they are masked for the comparison
    let mask = |t: &[String]| -> Vec<String> { t.iter().map(|l| mask_addresses(l)).collect() };
    let same = mask(&trace) == mask(&trace2)
        && match (&verdict, &verdict2) {
            (Ok(Verdict::Pass(a)), Ok(Verdict::Pass(b))) => a == b,
            (Ok(Verdict::Fail(a)), Ok(Verdict::Fail(b))) => a.class == b.class,
            (Err(a), Err(b)) => a == b,
            _ => false,
        };
    if !same {
        return Replayed::Error("two replays of the same choice vector differ (uncontrolled nondeterminism)".into());
    }
    match verdict {
        Ok(Verdict::Pass(_)) => Replayed::Pass(trace),
        Ok(Verdict::Fail(f)) => Replayed::Fail { trace, class: f.class, detail: f.detail },
        Err(e) if e.starts_with("BUG: ") => Replayed::Error(e),
        Err(e) => Replayed::Fail { trace, class: xplore::panic_class(&e), detail: e },
    }
}

/// Replace every `0x` followed by six or more hex digits by `0xADDR`.
pub fn mask_addresses(line: &str) -> String {
    let b = line.as_bytes();
    let mut out = String::with_capacity(line.len());
    let mut i = 0;
    while i < b.len() {
        if b[i] == b'0' && i + 1 < b.len() && b[i + 1] == b'x' {
            let mut j = i + 2;
            while j < b.len() && b[j].is_ascii_hexdigit() {
                j += 1;
            }
            if j - (i + 2) >= 6 {
                out.push_str("0xADDR");
                i = j;
                continue;
            }
        }
        // copy one UTF-8 character
        let ch_len = match b[i] {
            x if x < 0x80 => 1,
            x if x >= 0xf0 => 4,
            x if x >= 0xe0 => 3,
            _ => 2,
        };
        out.push_str(&line[i..(i + ch_len).min(line.len())]);
        i += ch_len;
    }
    out
}
