//! A global allocator wrapper that can log the address ranges released (`dealloc`, or `realloc`
//! that moved the block) by the current thread while a harness has logging switched on.  Used by
//! the C11 harness to decide "the memory a held `&str` points into has been freed" without ever
//! dereferencing it and without a hook in the code under test.

use std::alloc::{GlobalAlloc, Layout, System};
use std::cell::Cell;

pub struct LoggingAlloc;

const CAP: usize = 256;

thread_local! {
    static ON: Cell<bool> = const { Cell::new(false) };
    static N: Cell<usize> = const { Cell::new(0) };
    static LOG: [Cell<(usize, usize)>; CAP] = const { [const { Cell::new((0, 0)) }; CAP] };
}

#[inline]
fn record(ptr: *mut u8, size: usize) {
    // `try_with`: thread-local storage may already be gone while a thread shuts down
    let _ = ON.try_with(|on| {
        if on.get() && size >= 64 {
            let _ = N.try_with(|n| {
                let i = n.get();
                if i < CAP {
                    let _ = LOG.try_with(|l| l[i].set((ptr as usize, size)));
                }
                n.set(i + 1);
            });
        }
    });
}

unsafe impl GlobalAlloc for LoggingAlloc {
    unsafe fn alloc(&self, layout: Layout) -> *mut u8 {
        System.alloc(layout)
    }
    unsafe fn alloc_zeroed(&self, layout: Layout) -> *mut u8 {
        System.alloc_zeroed(layout)
    }
    unsafe fn dealloc(&self, ptr: *mut u8, layout: Layout) {
        record(ptr, layout.size());
        System.dealloc(ptr, layout)
    }
    unsafe fn realloc(&self, ptr: *mut u8, layout: Layout, new_size: usize) -> *mut u8 {
        let on = ON.try_with(|o| o.get()).unwrap_or(false);
        if on && layout.size() >= 64 {
            // While a harness is logging, growing a block always moves it: a legal allocator
            // answer, chosen so that "growth releases the old block" is deterministic.
            let new_layout = Layout::from_size_align_unchecked(new_size, layout.align());
            let p = System.alloc(new_layout);
            if !p.is_null() {
                std::ptr::copy_nonoverlapping(ptr, p, layout.size().min(new_size));
                record(ptr, layout.size());
                System.dealloc(ptr, layout);
            }
            return p;
        }
        System.realloc(ptr, layout, new_size)
    }
}

/// Start logging releases of blocks >= 64 bytes on this thread (clears the log).
pub fn start() {
    N.with(|n| n.set(0));
    ON.with(|o| o.set(true));
}
pub fn stop() {
    ON.with(|o| o.set(false));
}
/// Number of release events logged so far (a position usable with [`freed_since`]).
pub fn mark() -> usize {
    N.with(|n| n.get())
}
pub fn overflowed() -> bool {
    mark() > CAP
}
/// Was any block overlapping `[p, p+len)` released at or after log position `since`?
pub fn freed_since(since: usize, p: usize, len: usize) -> bool {
    let n = mark().min(CAP);
    LOG.with(|l| (since.min(n)..n).any(|i| {
        let (a, s) = l[i].get();
        a < p + len && p < a + s
    }))
}
