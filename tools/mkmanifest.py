#!/usr/bin/env python3
"""Regenerate /verif/MANIFEST.json from the table below and validate it (and any evidence files)
against the schemas in /root/.vp.  Run after adding or changing a check."""
import json, os, sys, glob

ROOT = os.path.dirname(os.path.dirname(os.path.abspath(__file__)))

# id -> (engine, technique, level text, level note, design section)
CHECKS = {
 "C01": ("zcheck", "stateless model checking of Connection::receive_* (DFS by re-execution over frame sequences x every partition of the byte stream into reads, deviation-bounded beyond 11/16 bytes)",
         "Every execution is a complete receive history of the real ReadConnection over a scripted transport; all frame sequences of the alphabet up to 3 frames, all partitions of short streams, all cut sets up to the deviation budget for long ones, every growth-boundary frame size, bursts, 2..3 frames of 100..300 bytes (the buffer grows while earlier frames are still in it); frame content includes non-ASCII characters, control / 0x7f / non-UTF-8 bytes in malformed frames. Compared against split-at-NUL + serde_json::from_slice after every receive.",
         "Trusted: serde_json::from_slice as the meaning of a frame; the scripted ReadHalf models a stream socket (returns 1..=min(available, buffer) bytes). Bounded: <=3 frames from an 18/15-symbol alphabet, growth sizes up to 774 bytes, bursts up to 40 frames, medium sequences of <=3 frames from 7 sizes.", "4 C01"),
 "C07": ("zcheck", "stateless model checking of receive with cancellation (every read poll may be pending, every pending may be followed by dropping the receive future)",
         "C01's space with two more choices at every transport read: ready/pending and re-poll/cancel. Every subset of suspension points is cancelled for short streams; deviation-bounded for growth-size frames and for 2..3-frame sequences of 100..300-byte frames.",
         "Trusted: the scripted ReadHalf is cancel-safe by construction, as the ReadHalf contract demands. Bounded: <=2 frames, streams <= 7/9 bytes fully partitioned, growth sizes with <=1/2 cuts near a 256-byte step.", "4 C07"),
 "C02": ("zcheck", "stateless model checking of the WriteConnection (complete sweep of all message-length pairs 1..700^2 x 4 operation forms; DFS over all operation histories up to 4/5 operations with lengths placed around the current free space)",
         "Every execution is a complete operation history on a fresh Connection whose transport logs each write with its boundaries; the oracle is a Vec<u8> of pending bytes. All length pairs meet every free-space value 0..=600; histories include unserializable messages and (buffer limit lowered to 4096 bytes by hook) messages sized against the limit - exact fit, no room for the terminator, +1, +300 bytes - at every position: a refused message contributes no bytes at any later flush and leaves the connection usable.",
         "Trusted: serde_json::to_vec as the JSON document of a message; the scripted WriteHalf accepts each write whole. Bounded: histories of <=4 (quick) / <=5 (thorough) operations, lengths from a boundary alphabet relative to free space, message sizes up to ~1.3 KB plus the limit-sized ones. Built with hook zlink_verif_small_buf (only the limit constant differs).", "4 C02"),
 "C06": ("zcheck", "stateless model checking of Chain/ReplyStream (DFS by re-execution over all chains x reply scripts x trailing frame x arrival chunkings, deviation-bounded mid-frame cuts and spurious Pending)",
         "Every execution builds a real chain on a real Connection, sends it, and drives the returned stream poll by poll while the reply bytes arrive in driver-chosen chunks; the oracle is the owed-replies model written from the statement. Reply scripts: success, declared error, or a final reply that does not decode (after which the stream may give up or carry on, but must never take or wait for more frames than owed).",
         "Trusted: the reply scripts conform to the protocol. Bounded: chains of <=4 (quick) / <=6 (thorough) calls, <=2 continuing replies per `more` call, every subset of inter-frame cuts for <=3/4 calls, <=1/2 deviations otherwise.", "4 C06"),
 "C11": ("zcheck", "stateless model checking of ReplyStream with every yielded item held (DFS over chains x reply scripts x payload sizes x arrival chunkings); damage decided from the transport's read log, an allocator release log and a content comparison",
         "Same executions as C06 with reply sizes that do and do not force buffer growth; after every later item each held &str is checked: memory released since? written by a later transport read? content unchanged? Two genuine defects of the pinned tree are listed as known findings (call site ReplyStream, separate reads); any damage in another situation is reported.",
         "Trusted: the harness allocator moves a block on every growth (adversarial but legal). Bounded: chains <=3/4 calls, sizes {20,300} / {20,200,300,600}.", "4 C11"),
 "C17": ("zcheck", "exhaustive enumeration of executions of the real Read/WriteConnection at every size up to limit+600 (library limit lowered to 4096 by hook) x arrival patterns / pending amounts, plus the production-limit cases with the library as shipped",
         "Every inbound frame size x {one arrival, malformed, unterminated+EOF, unterminated+silent, every single cut, behind a small frame}, every outbound message length x every amount of earlier enqueued data x {enqueue, send}: below the limit accepted and correct, above limit+step refused with BufferOverflow and nothing written, buffers never beyond limit+step.",
         "Trusted: hook zlink_verif_small_buf only changes the constant. Sizes in [limit, limit+256] are left free. A frame that follows a small one is judged by its own size. Sustained pipelining: streams of 3x the limit made of small frames (8 sizes x 10 piece sizes) must be delivered completely with a bounded buffer.", "4 C17"),
 "C08": ("zcheck", "stateless model checking of Server::run (DFS by re-execution over event histories: connects, bursts, cuts, short reads, delayed polls) against a per-connection sequential reference model; one phase has clients that hang up or stop taking writes while others are served",
         "Every execution drives a real Server over a scripted listener/transport poll by poll; after every poll-to-quiescence each connection's output and the service's call log are compared with the model (one reply or error per non-oneway call, nothing for oneway, in order, only on that connection); the server future must stay pending and keep accepting.",
         "Trusted: the test service's replies depend only on the call. Bounded: <=3/4 connections, <=5/6 calls in total, <=8/9 events, bursts from a 9-entry alphabet (plain, oneway, failing, oneway failing, oneway answered with a stream, pipelined mixes), <=2/3 deviations.", "4 C08"),
 "C09": ("zcheck", "stateless model checking of Server::run with a fault event (8 kinds) enabled at every position of every history",
         "The C08 space plus fault events on any connection at any point: garbage frame, truncated frame + EOF, EOF mid-burst, EOF, read error, write error, unknown method, wrong parameter types, an unterminated frame beyond the buffer limit (also while a stream is open). Healthy connections must match their model exactly, the server must keep running and serve a fresh client afterwards.",
         "Faulty connections are only prefix-checked (or unconstrained after an undecodable frame). Built with the buffer limit lowered to 4096 bytes (hook zlink_verif_small_buf) so that an oversized frame is an affordable fault. Bounded: <=3/4 connections, <=4/5 calls, <=8/9 events, <=2 faults.", "4 C09"),
 "C10": ("zcheck", "stateless model checking of Server::run with streaming calls: stream items and stream ends are driver events interleaved with client traffic",
         "Scripts mixing Watch calls (0..2 items, ending or left open) with plain/error calls pipelined before and behind them on <=2/3 connections, all interleavings of item production, stream end, byte arrival and other clients' calls; a client becoming unwritable at any point. Items in order with the service's continues flag, calls behind the stream answered after it ends, other clients unaffected, only the unwritable client's subscription dropped.",
         "Bounded: <=2/3 connections, <=4/5 calls, <=8 events, streams of <=2 items, <=1/2 deviations (cuts, short reads, a transport write pending once, delayed polls).", "4 C10"),
 "C18": ("zcheck", "stateless model checking of Server::run's scheduling: DFS over connection roles x the moment (every hand-over of a call to the service is an injection point) of every arrival, closure, stream end and late connect; oracle on the global service order",
         "Every execution floods a real Server from a subset of connections while the others' single calls, closures, stream transitions and late connects are injected at chosen hand-overs; clause 1 (no connection served twice while another, eligible one has had a complete call waiting and the set is unchanged) and clause 2 (waiting bounded by N*(T+1)) are evaluated on the recorded service order with per-hand-over snapshots of the connection set.",
         "Trusted: hand-overs are the only moments at which the single-task server can observe new input between two services. Bounded: <=3/4/5 connections, floods of 4..8 calls, 5..14 moments.", "4 C18"),
 "C03": ("zcheck", "exhaustive enumeration of serializer inputs (complete sweeps of all Unicode scalars / small ints / structured wide sets / f32 bit patterns, DFS over all bounded value trees that drive every Serializer method, every output-buffer length) compared with serde_json",
         "The real json_ser::to_slice (hook re-export) and the public send path are run on every enumerated value; equality with serde_json::to_vec driven by the same Serialize impl; refusal rules for map-key kinds; BufferTooSmall exactly below the encoding's length; every initial fill level of the send buffer.",
         "Trusted: serde_json as reference. Unbounded domains (f64, 128-bit ints, strings) are covered by complete structured subsets; the seeded supplement on top is sampling and labelled so in the evidence.", "4 C03"),
 "C04": ("zcheck", "complete enumeration of a finite product (reply frames x continues x member orders x frame sizes beyond 1/4/8/18 buffer steps x expected parameter types x error types x receive path), each case one execution of the real receive_reply / call_method",
         "373 base reply frames (all shapes the statement names, incl. error replies whose parameters fit the expected success type), each also bulked up to 300/1100/2100/4700 bytes in up to four meaning-preserving ways (whitespace, unknown member in front / at the end, long string parameter): 5485 frames x 5 parameter types x 3 error types x 3 paths (receive_reply, call_method, receive_reply as the second frame of one arrival); the oracle classifies the frame from its JSON text alone.",
         "Trusted: serde_json for `this frame decodes as that type`. The proxy path is covered by C12's corpus.", "4 C04"),
 "C05": ("zcheck", "complete enumeration of finite products (flag sets x member permutations x method types; error values x member orders x parameter spellings; reply shapes; no-parameter spellings at three call sites), each case executed against the real encoders/decoders",
         "Calls are encoded through zlink's own serializer and serde_json and compared with JSON built structurally from the value, decoded back, and decoded from every member order with every flag assignment and an unknown member (a capturing method type proves flags are hidden and other members passed through); derived and library error enums, Reply<T>, unit-output proxy methods and GetInfo with parameters absent / null / {}.",
         "Trusted: serde_json as JSON parser. The error-enum corpus is hand-written (4 types incl. variant-level renames with near-miss spellings, 22 values, 11 names that must not decode); a generated corpus is part of C15's crate.", "4 C05"),
 "C13": ("zcheck", "exhaustive enumeration of parser inputs: DFS over all bounded reference trees x layouts (positives), every single mutation of such texts and every short token string (negatives), each parsed by the real parser and judged by a three-valued reference recogniser written from the grammar",
         "Must-accept texts must parse to exactly the denoted tree (members in source order within kind, names, types, comments); must-reject texts must be rejected; texts derivable only with comments/layout the statement does not name may go either way but an accepted tree must still equal the denoted one; a panic is a violation.",
         "Trusted: the harness's reading of the published grammar (unit-tested reference recogniser). Bounded: <=2/3 members, <=2 fields per list, <=2/3 wrapper or inline type nodes per interface, token strings <=4/5. The seeded byte-soup supplement is sampling and labelled so.", "4 C13"),
 "C14": ("zcheck", "exhaustive enumeration (DFS) of bounded interface descriptions built through the public constructors, each rendered, parsed, compared deeply and rendered again; also parser-produced descriptions and the GetInterfaceDescription exchange through a real Connection and the generated proxy",
         "render-parse identity incl. comments on interface, members, direct fields, parameters, variants; second render equals first; what the client parses equals what the service described. One genuine defect is a listed known finding (custom enum with a commented variant renders without commas).",
         "Bounded as C13. Comments are plain single-line texts. Descriptions produced by the derive macros are round-tripped in C16's corpus.", "4 C14"),
 "C19": ("sockets", "stateless model checking of real socketpair traffic: DFS over message sequences x driver schedules (which end is polled next, when a pending send future is dropped) with a deviation budget, every schedule one real single-threaded execution per runtime (tokio, smol)",
         "Real AF_UNIX socketpairs with the smallest kernel buffers, real zlink_tokio / zlink_smol connections, futures polled by hand; received sequence must be the sent one (whole frames, in order, each at most once, every completed send delivered) for one- and two-directional traffic, with sends abandoned at every scheduled point; listeners bound vs. from an inherited descriptor with 1..8 clients, identifiers distinct.",
         "The explorer owns the schedule, not how many bytes the kernel accepts per write (observed, assumed to be a function of the operation sequence). Identifier distinctness is checked sequentially in the listener cases and, under threads, by loom (every interleaving of 3..4 threads creating 1..2 connections each). Bounded: <=3 messages from {1 B, 300 B, 6 KB, 70 KB} (+1 MiB thorough), 6..16 scheduled steps, <=3 deviations, incl. a phase where several sends in a row are abandoned (a retry dropped before it made progress).", "4 C19"),
 "C20": ("sockets", "exhaustive enumeration (DFS) of operation sequences over {set, subscribe, poll(i), clone, drop} against zlink_tokio::notified and zlink_smol::notified, hand-polled on one thread, logs compared with the latest-value rule and with each other",
         "Every sequence of <=8/10 operations with <=3 subscribers and <=3 state handles; per subscriber: items are values set after it subscribed, in order, each once, marked continuing; a drained subscriber has seen the latest value; a pending subscriber is woken by the next set; no end of stream while a state handle exists; tokio and smol observation logs equal; the 4 one-shot scenarios per crate.",
         "Trusted: the broadcast/oneshot channel libraries are linearizable, so cross-thread use reduces to these sequences.", "4 C20"),
 "C12": ("corpus", "exhaustive enumeration of a generated program corpus: every proxy method of a systematically enumerated trait corpus is compiled against /repo's macro and executed for every combination of boundary argument values x call forms x scripted replies",
         "~180 (quick) / ~600 (thorough) generated proxy methods (incl. arguments named like protocol members and likely locals: method, parameters, more, error, call, conn ...; `no parameters` spelled absent / null / {} in turn); the frame each call form writes is compared, as JSON value and member set, with the frame the generator derives from the declaration (method path, wire names, omitted None, flags); results are mapped as the receive classification says; streams yield one item per reply. A corpus that does not compile is a violation reported by the build step.",
         "Trusted: the generator's reading of the declaration (PascalCase rule). Bounded: parameter lists of length <=2 exhaustively over 11 types, longer lists by position coverage.", "4 C12"),
 "C16": ("corpus", "exhaustive enumeration of a generated program corpus: every derived description of a systematically enumerated set of Rust types is compiled against /repo's derive macros and compared with the generator's own model of the type",
         "~190 (quick) / ~700 (thorough) derived structs, enums and error enums covering every supported field type, every wrapper around every leaf and every pair of wrappers, raw-identifier fields, lifetimes, doc comments attached in seven ways plus multi-line doc attributes, fields with serde attributes that keep them on the wire; TYPE / CUSTOM_TYPE / VARIANTS compared deeply; interfaces assembled from the derived descriptions are rendered and parsed back. The C14 defect (commented enum variant) is a listed known finding here too.",
         "Trusted: the generator's model of the mapping (written from the statement). Not asserted: Duration, paths, OsStr, network addresses, serde_json::Value; Option<Option<T>> is not generated.", "4 C16"),
 "C15": ("corpus", "exhaustive enumeration of a generated program corpus: every interface of a systematically enumerated IDL corpus is run through /repo's code generator at build time, compiled, and every method, type, enum value and error of every interface is exercised",
         "60 (quick) / 400 (thorough) interfaces + 6 edge interfaces whose names cover acronyms, digits, underscore-digit, all-caps, camelCase, snake_case and Rust keywords, and whose output types include collections of nullable elements (replies carry nulls); expectations (method path, parameter and output names, JSON shapes, enum spellings, error names) come from the IDL model; Rust-side names are read positionally from the generated code, never predicted. A corpus that does not compile is a violation.",
         "Trusted: the harness's mirror of the parameter types the generator declares for each IDL type (needed to write argument expressions). Interfaces are non-recursive and collision-free.", "4 C15"),
}

# sentences appended to the level text of a check (what later rounds added)
EXTRA = {
 "C01": "Growth-size frames come valid, as garbage bytes, and as undecodable but valid UTF-8 made of three-byte characters at each of the three alignments (unbalanced JSON / a JSON array). One frame of 4 KiB .. 300 KB / 1 MiB around powers of two. An end-of-stream report for a frame that does not decode is a violation. An empty frame (a bare NUL) may stand among the frames: it may be skipped or answered with an error, the frames around it must be unaffected.",
 "C02": "A phase with the production limit (child process of the main build) hands 4 KiB .. 1 MiB to the transport in one flush - one below, at, one above every power of two - built from one large message, hundreds of small ones and mixtures. Phase raw-wire (child process `sockets c02-child`): real socket pairs with the zlink-tokio / zlink-smol transports, one send abandoned at its 1st / 2nd / 4th pending poll, further sends and a final flush; the raw bytes a std reader gets must be every message once, in order, each followed by one NUL. Phase empty-shapes: payloads whose encoding has nothing between its brackets. The raw-wire phase also sends each message as a chain of its own.",
 "C04": "Which errors a type recognises is decided from the reply's JSON value alone (declared name + exactly the variant's fields), not with the library's decoders; every base frame is also extended by a single unknown member. The product also goes through generated proxy methods (one per parameter type x error type). The error types have a variant whose wire name is a rename (the declared name must be recognised, the Rust spelling must not).",
 "C06": "A sweep of large chains (16 KiB .. 200 KB, thorough 3 MB, built in three ways, kinds rotating) checks the one-write clause far beyond the buffer's growth step. A phase builds chains with the chain_<m> / extension methods the proxy macro generates (plain / more methods with and without arguments). A phase with peers that pad their replies with extra NUL bytes.",
 "C07": "The same guarantee over the transports zlink ships: a child process (`sockets c07-child`) runs real socket pairs with zlink-tokio and zlink-smol where the schedule may drop the pending receive future at any of its first 8..14 steps. An empty frame (a bare NUL) may stand among the frames.",
 "C09": "Undecodable frames also come long and non-ASCII: ~700 bytes of three-byte characters at each alignment (unbalanced JSON, unknown method, wrong-typed parameters) and a call whose string holds bytes that are not UTF-8. A call with a 70-character unknown member spelled with a JSON escape in front of an unknown method is one more undecodable frame. A child process (`sockets c09-child`) runs a service built on notified::State (zlink-tokio and zlink-smol) behind the real Server::run with clients that hang up, also while subscribed.",
 "C10": "A child process (`sockets c10-child`) runs a service whose reply streams are the library's own notified::State / notified::Once (zlink-tokio and zlink-smol) behind the real Server::run: bursts of up to 12 state changes while clients are subscribed, one-shot streams with a call pipelined behind them. In the notified-state phases clients may also hang up while subscribed.",
 "C11": "The peer pads every reply with 0, 1 or 3 extra NUL bytes; the listed finding is keyed to a read that follows a rewind of the connection's cursors, any other overwrite is reported. The peer may hang up after its first reply or inside its second one; the freed-by-growth finding only covers a buffer that a read attempt found full. The caller may drop the stream after the first item while replies are still owed and go on reading what it was given.",
 "C12": "Arguments spelled as raw identifiers (r#type ...) are part of the corpus. Option arguments are also written with a path (std::option::Option, ::std::option::Option, ::core::option::Option, core::option::Option).",
 "C13": "Comment-texts phases put each of seven comment texts (incl. texts that look like IDL: brackets before / after a colon, a colon or bracket alone, keywords) on every commentable position. Comment texts that start with `#`; long member lists (12 variants / 9 fields with long names).",
 "C14": "Comment-texts phases put each of seven comment texts (incl. texts that look like IDL) on every commentable position, also through the GetInterfaceDescription exchange. Comment texts that start with `#`; long member lists; the commented-variant finding covers a description only if putting the missing commas in is all it takes. Phase exchange/description-sizes: the exchange for a fixed interface with a comment of every length 0..700 (thorough 1500) on the interface / its first / its last member.",
 "C15": "Interface org.edge.nested has custom types that refer to other custom types: a leaf per value kind, a wrapper per way of referring (plain, ?, [], [string]), two more levels on top, used as inputs, outputs and error fields. Field names include method / parameters / call / reply / conn / params. Three interfaces with comments are also generated into ONE module (verbatim, as a file of its own); inner doc comments are only left out at the very top of a generated text.",
 "C18": "A sizes phase has waiting calls of 350 bytes and 5 KB (the receive buffer has to grow while the flood goes on) and flooders with calls of mixed sizes. A child process (`sockets c18-child`) checks the first clause over the listeners and transports of zlink-tokio and zlink-smol: 2..3 std clients whose bursts are all in their sockets before the server looks.",
 "C19": "Listeners: {bound, inherited descriptor in blocking mode, inherited descriptor in non-blocking mode} x 1..3 clients x for each client whether accept is polled before the client connects (must come back pending, then complete) or after, traffic both ways on every accepted connection. Sends (send_call, or each message as a chain of its own) abandoned at their 1st / 2nd / 4th pending poll with more messages and a final flush following: the raw bytes a std reader gets must be every message once, in order.",
 "C03": "A child process (`sockets c03-child`) compares the raw bytes a std reader takes off a real socket pair behind the zlink-tokio / zlink-smol transports (messages of 300 B .. 150 KB with characters that need escaping, four reader speeds, smallest / default socket buffers) with serde_json's encodings + NULs. Values written through Serializer::collect_str (a Display producing 1..3 pieces of 0..300 bytes) into every buffer length and from eight fill levels.",
 "C05": "Every error frame is also received over a connection (receive_reply with a success type of other required fields, and with ()). Unknown call members also have 70-character names, plain and spelled with an escape. Reply parameters of eight types, among them zero-sized ones (field-less struct, one-variant enum, PhantomData / empty array) and empty values.",
 "C08": "A child process (`sockets c08-child`) runs the server over the listeners and transports of zlink-tokio and zlink-smol with std clients that stay, half-close or close (right after writing / once the server is idle; server first run before the connects / before the writes / after everything). Calls of 5 KB and calls with a 70-character escaped unknown member are part of the alphabets.",
 "C16": "Long member lists (14 variants, 10 fields); the commented-variant finding covers an interface only if putting the missing commas in is all it takes. `Type`-derived inline structs with documented fields are used nested in assembled interfaces (parameter, ?, [], [string], error field).",
 "C17": "A sweep sends messages whose last value is a float / integer / literal / empty container at every length around the limit.",
 "C20": "The notified types are also run behind Server::run (scripted listener) with up to 3 clients that subscribe, set the state and hang up.",
}

NOT_YET = {
}

def main():
    checks = []
    for pid, (engine, technique, text, note, ref) in sorted(CHECKS.items()):
        if pid in EXTRA:
            text = text + " " + EXTRA[pid]
        checks.append({
            "property_id": pid,
            "quick_cmd": f"./vcheck {pid} quick",
            "thorough_cmd": f"./vcheck {pid} thorough",
            "evidence_file": f"/verif/evidence/{pid}.json",
            "replay_cmd_template": "./vcheck --replay {path}",
            "engine": engine,
            "level_claimed": {"category": "model_checking", "text": text, "design_ref": f"DESIGN.md section {ref}"},
            "level_note": note,
            "technique": technique,
        })
    props = [json.loads(l)["id"] for l in open(os.path.join(ROOT, "properties.jsonl")) if l.strip()]
    na = [{"property_id": p, "reason": NOT_YET.get(p, "check not built yet in this round (work in progress; see DESIGN.md section 9)")}
          for p in props if p not in CHECKS]
    hooks_file = os.path.join(ROOT, "hooks.json")
    hooks = json.load(open(hooks_file)) if os.path.exists(hooks_file) else {"source_commits": []}
    m = {
        "version": 1,
        "setup_cmd": "./vcheck setup",
        "hooks": {
            "guard": "--cfg zlink_verif (plus --cfg zlink_verif_small_buf for the lowered buffer limit, plus --cfg zlink_verif_loom for the loom build of the connection-id counter)",
            "enable": "RUSTFLAGS='--cfg zlink_verif' set by ./vcheck for every harness build (CARGO_TARGET_DIR=/verif/.build/main); a second build with '--cfg zlink_verif --cfg zlink_verif_small_buf' in /verif/.build/smallbuf; a third with '--cfg zlink_verif --cfg zlink_verif_loom' in /verif/.build/loom (package loomids only)",
            "baseline_off_cmd": "cd /repo && cargo nextest run --workspace --no-fail-fast --test-threads 8 --offline",
            "source_commits": hooks.get("source_commits", []),
            "add_only": True,
        },
        "engines": [
            {"name": "xplore", "path": "/verif/mc/xplore", "serves_properties": sorted(CHECKS), "kind_free_text": "stateless explorer: deviation-bounded DFS by re-execution of the real code under a harness that owns every environment choice; parallel indexed sweeps for plain product spaces; replay files; evidence writer"},
            {"name": "simnet", "path": "/verif/mc/simnet", "serves_properties": sorted(CHECKS), "kind_free_text": "scripted Socket/Listener/executor whose read sizes, pending polls, arrivals, faults are explorer choices"},
            {"name": "loom", "path": "/verif/mc/loomids", "serves_properties": ["C19"], "kind_free_text": "loom 0.7 (exhaustive exploration of thread interleavings at atomic operations): 3..4 threads calling Connection::new against zlink-core's id counter built as a loom atomic (hook cfg zlink_verif_loom)"},
        ],
        "checks": checks,
        "not_applicable": na,
        "notes": "All checks are exhaustive bounded enumerations of executions of the real zlink code (model checking of the implementation). See DESIGN.md.",
    }
    out = os.path.join(ROOT, "MANIFEST.json")
    json.dump(m, open(out, "w"), indent=1)
    open(out, "a").write("\n")
    try:
        import jsonschema
    except ImportError:
        print("jsonschema not importable here; run with python3-vt to validate"); return
    jsonschema.validate(m, json.load(open("/root/.vp/MANIFEST.schema.json")))
    es = json.load(open("/root/.vp/EVIDENCE.schema.json"))
    for f in sorted(glob.glob(os.path.join(ROOT, "evidence", "*.json"))):
        jsonschema.validate(json.load(open(f)), es)
        print("evidence ok:", os.path.basename(f))
    print("MANIFEST ok:", len(checks), "checks,", len(na), "not_applicable")

main()
