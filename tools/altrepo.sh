#!/bin/bash
# altrepo.sh : (re)create a scratch worktree of /repo at its HEAD under /tmp/seed/alt and print its path.
# Seeded changes and mutations are applied THERE and checked with `VERIF_REPO=<path> ./vcheck ...`,
# so /repo, /verif/evidence and /verif/replays are never touched by tooling runs.
alt="${VERIF_ALT:-/tmp/seed/alt}"
head="$(git -C /repo rev-parse HEAD)"
if [ -d "$alt/.git" ] || [ -f "$alt/.git" ]; then
  git -C "$alt" checkout -q --detach "$head" 2>/dev/null && git -C "$alt" reset -q --hard "$head" && git -C "$alt" clean -qfd
else
  mkdir -p "$(dirname "$alt")" && git -C /repo worktree prune && git -C /repo worktree add -q --detach "$alt" "$head"
fi
echo "$alt"
