#!/bin/bash
# verify_seed.sh <worktree> <check>... : confirm a seeded change (suite green, demo fails with / passes without),
# then run the given checks against /repo with the patch applied, and undo it.
wt="$1"; shift
export CARGO_NET_OFFLINE=true CARGO_TARGET_DIR="$wt/target"
cd "$wt" || exit 2
git checkout -q -- README.md 2>/dev/null
echo "== patch"; git diff --stat -- . ':!demo' | tail -3
if ! diff -q <(git diff -- . ':!demo' ':!patch.diff') patch.diff >/dev/null; then echo "NOTE: patch.diff differs from the working tree diff; regenerating"; git diff -- . ':!demo' ':!patch.diff' ':!*.md' > patch.diff; fi
echo "== suite with the change"; cargo nextest run --workspace --no-fail-fast --test-threads 8 --offline 2>&1 | grep -E "Summary|^\s+FAIL" | head -5
echo "== demo with the change"; (cd demo && cargo test --offline 2>&1 | grep -E "^test result|test .* FAILED|error(\[|:)" | head -8)
git apply -R patch.diff || { echo "cannot reverse patch"; exit 2; }
echo "== demo without the change"; (cd demo && cargo test --offline 2>&1 | grep -E "^test result|test .* FAILED|error(\[|:)" | head -8)
git apply patch.diff
echo "== checks against /repo with the patch"
cd /repo && [ -z "$(git status --porcelain --untracked-files=no)" ] || { echo "repo dirty"; exit 2; }
git apply "$wt/patch.diff" || { echo "patch does not apply to /repo"; exit 2; }
unset CARGO_TARGET_DIR
for c in "$@"; do
  (cd /verif && ./vcheck "$c" quick 2>&1 | grep -aE "^VIOLATION|^KNOWN|class:|tier:|MACHINERY" | cut -c1-230 | head -8; echo "[$c exit=${PIPESTATUS[0]}]")
done
cd /repo && git checkout -q -- . && git status --short | head -2
git -C /verif checkout -q -- evidence 2>/dev/null  # evidence written by runs against a changed tree is not evidence
