#!/bin/bash
# verify_seed.sh <worktree> <check>... : confirm a seeded change (suite green, demo fails with / passes without),
# then run the given checks against a scratch copy of /repo with the patch applied (/repo itself is not touched).
VROOT="$(cd "$(dirname "${BASH_SOURCE[0]}")/.." && pwd)"   # the verification root this script belongs to (a snapshot runs its own copy)
wt="$1"; shift
export CARGO_NET_OFFLINE=true CARGO_TARGET_DIR="$wt/target"
cd "$wt" || exit 2
git checkout -q -- README.md 2>/dev/null
echo "== patch"; git diff --stat -- . ':!demo' | tail -3
if ! diff -q <(git diff -- . ':!demo' ':!patch.diff') patch.diff >/dev/null; then echo "NOTE: patch.diff differs from the working tree diff; regenerating"; git diff -- . ':!demo' ':!patch.diff' ':!*.md' > patch.diff; fi
echo "== suite with the change"; cargo nextest run --workspace --no-fail-fast --test-threads 8 --offline 2>&1 | grep -E "Summary|^\s+FAIL" | head -5
echo "== demo with the change"; (cd demo && cargo test --offline 2>&1 | grep -E "^test result|test .* FAILED|error(\[|:)" | head -8)
git apply -R patch.diff || { echo "cannot reverse patch"; exit 2; }
echo "== demo without the change"; (cd demo && cargo test --offline 2>&1 | grep -E "^test result|test .* FAILED|error(\[|:)" | head -8)
git apply patch.diff
echo "== checks against a scratch copy of /repo with the patch"
alt="$($VROOT/tools/altrepo.sh)"
git -C "$alt" apply "$wt/patch.diff" || { echo "patch does not apply to /repo HEAD"; exit 2; }
unset CARGO_TARGET_DIR
for c in "$@"; do
  (cd "$VROOT" && VERIF_REPO="$alt" ./vcheck "$c" quick 2>&1 | grep -aE "^VIOLATION|^KNOWN|class:|tier:|MACHINERY" | cut -c1-230 | head -8; echo "[$c exit=${PIPESTATUS[0]}]")
done
$VROOT/tools/altrepo.sh >/dev/null
