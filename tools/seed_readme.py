#!/usr/bin/env python3
"""Regenerate the table in /verif/seeded/README.md from the meta.json files."""
import json, glob, os, re
rows = []
for d in sorted(glob.glob('/verif/seeded/*/')):
    m = json.load(open(d + 'meta.json')); i = os.path.basename(d.rstrip('/'))
    caught = '; '.join(f"{k}: `{v}`" if not v.startswith('`') else f"{k}: {v}" for k, v in m['caught_by'].items())
    if m.get('missed_before'):
        caught = "**missed at first** (" + m['missed_before'] + "); now " + caught
    if m.get('ported'):
        caught += " - patch re-made against the current tree (original: patch.orig.diff)"
    if m.get('obsolete'):
        caught += " - OBSOLETE: " + m['obsolete']
    if m.get('harness_fix'):
        caught += " - harness corrected: " + m['harness_fix']
    rows.append(f"| {i} | {m['property']} | {m['summary']} | {m['needs']} | {caught} |")
p = '/verif/seeded/README.md'; s = open(p).read()
head = s.split('| id | property |')[0]
open(p, 'w').write(head + "| id | property | change | needs | caught by (quick tier unless noted) |\n|---|---|---|---|---|\n" + "\n".join(rows) + "\n")
print(len(rows), "rows")
