#!/bin/bash
# run_seeded.sh [tier] [id...] : apply every seeded change under /verif/seeded (or the given ones) to a scratch
# copy of /repo in turn, run the check of the property it breaks against that copy (quick by default), and say
# whether the check raised an alarm.  /repo itself, evidence/ and replays/ are not touched.
VROOT="$(cd "$(dirname "${BASH_SOURCE[0]}")/.." && pwd)"   # the verification root this script belongs to (a snapshot runs its own copy)
tier="${1:-quick}"; shift
ids=("$@"); [ ${#ids[@]} -eq 0 ] && ids=($(ls "$VROOT/seeded" | grep -E '^C[0-9]+-'))
for id in "${ids[@]}"; do
  d="$VROOT/seeded/$id"; prop="$(jq -r '.check_with // .property' "$d/meta.json")"   # (check_with: the change belongs to another property's subject, see its meta.json)
  if jq -e .obsolete "$d/meta.json" >/dev/null; then echo "$id: obsolete (see meta.json), skipped"; continue; fi
  alt="$($VROOT/tools/altrepo.sh)"
  git -C "$alt" apply "$d/patch.diff" || { echo "$id: patch does not apply"; continue; }
  out="$(cd "$VROOT" && VERIF_REPO="$alt" ./vcheck "$prop" "$tier" 2>&1)"; rc=$?
  classes="$(echo "$out" | grep -aE '^  class:' | sed 's/  class: //' | sort -u | tr '\n' ';' | cut -c1-200)"
  if [ $rc -eq 1 ]; then echo "$id ($prop $tier): CAUGHT  $classes"; else echo "$id ($prop $tier): MISSED (exit $rc)"; mkdir -p "${VERIF_ROOT_OUT:-/tmp/seed}/missed"; echo "$out" | tail -n 60 > "${VERIF_ROOT_OUT:-/tmp/seed}/missed/$id.log"; fi
done
$VROOT/tools/altrepo.sh >/dev/null
