#!/bin/bash
# run_seeded.sh [tier] : apply every seeded change under /verif/seeded to /repo in turn, run the check of the
# property it breaks (quick by default), undo it, and say whether the check raised an alarm.
tier="${1:-quick}"
cd /repo && [ -z "$(git status --porcelain --untracked-files=no)" ] || { echo "repo dirty"; exit 2; }
for d in /verif/seeded/*/; do
  id="$(basename "$d")"; prop="$(jq -r .property "$d/meta.json")"
  if jq -e .obsolete "$d/meta.json" >/dev/null; then echo "$id: obsolete (see meta.json), skipped"; continue; fi
  git -C /repo apply "$d/patch.diff" || { echo "$id: patch does not apply"; continue; }
  out="$(cd /verif && ./vcheck "$prop" "$tier" 2>&1)"; rc=$?
  git -C /repo checkout -q -- .
  classes="$(echo "$out" | grep -aE '^  class:' | sed 's/  class: //' | sort -u | tr '\n' ';' | cut -c1-200)"
  if [ $rc -eq 1 ]; then echo "$id ($prop $tier): CAUGHT  $classes"; else echo "$id ($prop $tier): MISSED (exit $rc)"; fi
done
rm -rf /verif/replays
git -C /verif checkout -q -- evidence 2>/dev/null  # evidence written by runs against a changed tree is not evidence
