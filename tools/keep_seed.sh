#!/bin/bash
# keep_seed.sh <worktree> <id> : copy a verified seeded change (patch, demo without build output, agent write-up) to /verif/seeded/<id>
wt="$1"; id="$2"; d="/verif/seeded/$id"
mkdir -p "$d"
cp "$wt/patch.diff" "$d/patch.diff"
[ -f "$wt/AGENT-README.md" ] && cp "$wt/AGENT-README.md" "$d/AGENT-README.md"
rm -rf "$d/demo"; rsync -a --exclude target --exclude Cargo.lock "$wt/demo/" "$d/demo/"
du -sh "$d"
