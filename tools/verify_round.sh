#!/bin/bash
# verify_round.sh <round-dir> "<Cxx> <check>..." ... : tools/verify_seed.sh for several scratch worktrees of one round, in turn;
# prints only the lines that matter (suite summary, demo results, which checks raised an alarm).
VROOT="$(cd "$(dirname "${BASH_SOURCE[0]}")/.." && pwd)"   # the verification root this script belongs to (a snapshot runs its own copy)
r="$1"; shift
for spec in "$@"; do set -- $spec; p=$1; shift
  echo "######## $p"
  $VROOT/tools/verify_seed.sh "$r/wt-$p" "$@" 2>&1 | grep -v "^test result: ok. 0 passed" | grep -a "Summary\|test result\|exit=\|class:\|error\[" | cut -c1-220
done
echo ROUND-VERIFY-DONE
