#!/bin/bash
# mk_seed_round.sh <round-dir> : prepare a round of seeded changes: one scratch worktree of /repo per property
# (<round-dir>/wt-Cxx) and one instruction file per property (<round-dir>/Cxx.full = tools/seed_prompt_common.txt +
# the property's text + what earlier seeded changes did and which files they touched).  Each file is then given to a
# fresh sub-agent ("Read <file> and follow it"); nothing from /verif is shown to it.
r="$1"; mkdir -p "$r"; cd /verif || exit 2
for p in $(seq -w 1 20); do P=C$p
  { echo "PROPERTY $P:"; jq -r "select(.id==\"$P\")|.statement" properties.jsonl; echo
    echo "Changes already made by others for this property (do NOT repeat these or close variants of them; pick a different mechanism and, if possible, a different clause of the property or a different source file - the files touched so far are listed at the end):"
    for d in seeded/$P-*; do echo "- $(jq -r .summary $d/meta.json) [needs: $(jq -r .needs $d/meta.json)]"; done; echo
    echo "Files touched by those earlier changes: $(cat seeded/$P-*/patch.diff | grep '^+++ b/' | sed 's#+++ b/##' | sort | uniq -c | sort -rn | awk '{print $2" ("$1"x)"}' | tr '\n' ' ')"
    [ -n "$SEED_HINT" ] && echo "$SEED_HINT"
  } > "$r/$P.prompt"
  sed "s#WT#$r/wt-C$p#g" tools/seed_prompt_common.txt > "$r/C$p.full"; cat "$r/$P.prompt" >> "$r/C$p.full"
  git -C /repo worktree add -q --detach "$r/wt-C$p" HEAD
done
