#!/bin/bash
# mut.sh <prop> <file-relative-to-the-repo> <sed-expr> : apply a one-line mutation to a scratch copy of /repo,
# run the quick check against that copy, print what it reported.  /repo itself is not touched.
VROOT="$(cd "$(dirname "${BASH_SOURCE[0]}")/.." && pwd)"   # the verification root this script belongs to (a snapshot runs its own copy)
prop="$1"; file="$2"; expr="$3"
alt="$($VROOT/tools/altrepo.sh)"
sed -i "$expr" "$alt/$file"
if git -C "$alt" diff --quiet; then echo "MUTATION DID NOT APPLY"; exit 2; fi
git -C "$alt" diff | grep '^[-+]' | grep -v '^+++\|^---'
cd "$VROOT" && VERIF_REPO="$alt" ./vcheck "$prop" quick 2>&1 | grep -aE "VIOLATION|KNOWN-FINDING|class:|MACHINERY|tier:" | head -${MUT_LINES:-8}
echo "exit=${PIPESTATUS[0]}"
$VROOT/tools/altrepo.sh >/dev/null
