#!/bin/bash
# mut.sh <prop> <file-relative-to-the-repo> <sed-expr> : apply a one-line mutation to a scratch copy of /repo,
# run the quick check against that copy, print what it reported.  /repo itself is not touched.
prop="$1"; file="$2"; expr="$3"
alt="$(/verif/tools/altrepo.sh)"
sed -i "$expr" "$alt/$file"
if git -C "$alt" diff --quiet; then echo "MUTATION DID NOT APPLY"; exit 2; fi
git -C "$alt" diff | grep '^[-+]' | grep -v '^+++\|^---'
cd /verif && VERIF_REPO="$alt" ./vcheck "$prop" quick 2>&1 | grep -aE "VIOLATION|KNOWN-FINDING|class:|MACHINERY|tier:" | head -${MUT_LINES:-8}
echo "exit=${PIPESTATUS[0]}"
/verif/tools/altrepo.sh >/dev/null
