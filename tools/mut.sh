#!/bin/bash
# mut.sh <prop> <file-relative-to-/repo> <sed-expr> : apply a one-line mutation to /repo, run the quick check, revert.
prop="$1"; file="$2"; expr="$3"
cd /repo || exit 2
[ -z "$(git status --porcelain --untracked-files=no)" ] || { echo "repo dirty"; exit 2; }
sed -i "$expr" "$file"
if git diff --quiet; then echo "MUTATION DID NOT APPLY"; exit 2; fi
git diff | grep '^[-+]' | grep -v '^+++\|^---'
cd /verif && ./vcheck "$prop" quick 2>&1 | grep -E "VIOLATION|KNOWN-FINDING|class:|MACHINERY|tier:" | head -${MUT_LINES:-8}
echo "exit=${PIPESTATUS[0]}"
cd /repo && git checkout -- .
git -C /verif checkout -q -- evidence 2>/dev/null  # evidence written by runs against a changed tree is not evidence
