#!/bin/bash
# retest_round.sh <round-dir> "<Cxx> <check>..." ... : apply each worktree's patch.diff to the scratch copy and run the given
# checks (quick) against it; no suite / demo runs (tools/verify_seed.sh did those).
VROOT="$(cd "$(dirname "${BASH_SOURCE[0]}")/.." && pwd)"
r="$1"; shift
for spec in "$@"; do set -- $spec; p=$1; shift
  alt="$($VROOT/tools/altrepo.sh)"
  git -C "$alt" apply "$r/wt-$p/patch.diff" || { echo "$p: patch does not apply"; continue; }
  for c in "$@"; do
    out="$(cd "$VROOT" && VERIF_REPO="$alt" ./vcheck "$c" quick 2>&1)"; rc=$?
    echo "$p vs $c: exit=$rc $(echo "$out" | grep -a '^  class:' | sed 's/  class: //' | sort -u | tr '\n' ';' | cut -c1-260)"
    [ $rc -eq 2 ] && echo "$out" | grep -a "MACHINERY" | head -3
  done
done
$VROOT/tools/altrepo.sh >/dev/null; echo RETEST-DONE
