#!/bin/bash
# Run the repository's own test suite (guard off) and report pass/fail counts.
cd /repo && CARGO_NET_OFFLINE=true cargo nextest run --workspace --no-fail-fast --test-threads 8 --offline 2>&1 | tail -${1:-6}
